#!/bin/sh
# Offline setup: warm the Kani build of ipa-core's dependencies (cold ~75-120 s) so that each
# check only pays the ~20 s re-codegen of ipa-core itself.  Nothing is fetched.
set -e
export IPA_VERIF_DIR="$(cd "$(dirname "$0")" && pwd)"
export IPA_VERIF_REPLAY_DIR="$IPA_VERIF_DIR/replays/slots"
export CARGO_NET_OFFLINE=true
WORK="${IPA_VERIF_WORK:-/var/tmp/ipa-verif}"
mkdir -p "$WORK" "$IPA_VERIF_DIR/evidence"
cd "${IPA_REPO:-/repo}"
cargo kani -p ipa-core --lib --features "cli test-fixture" -Z stubbing -Z unstable-options \
  --target-dir "$WORK/kani-target" --only-codegen --harness "q08_boolean_is_gf2" >"$WORK/setup.log" 2>&1 \
  || { tail -50 "$WORK/setup.log"; exit 1; }
echo "setup ok"
