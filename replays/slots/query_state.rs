// no replay selected for this hook
