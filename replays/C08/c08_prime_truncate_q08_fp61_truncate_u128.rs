// concrete counterexample produced by CBMC for harness verif_kani::c08_prime::truncate::q08_fp61_truncate_u128
// replay: ./check C08 --replay /verif/replays/C08/c08_prime_truncate_q08_fp61_truncate_u128.rs
/// Test generated for harness `verif_kani::c08_prime::truncate::q08_fp61_truncate_u128` 
///
/// Check for `assertion`: ""truncate_from(u128) canonical""
///
/// # Warning
///
/// Concrete playback tests combined with stubs or contracts is highly
/// experimental, and subject to change.
///
/// The original harness has stubs which are not applied to this test.
/// This may cause a mismatch of non-deterministic values if the stub
/// creates any non-deterministic value.
/// The execution path may also differ, which can be used to refine the stub
/// logic.

#[test]
fn kani_concrete_playback_q08_fp61_truncate_u128_4555726763929275688() {
    let concrete_vals: Vec<Vec<u8>> = vec![
        // 340282366920938463463374607431768211455
        vec![255, 255, 255, 255, 255, 255, 255, 255, 255, 255, 255, 255, 255, 255, 255, 255],
    ];
    kani::concrete_playback_run(concrete_vals, crate::verif_kani::c08_prime::truncate::q08_fp61_truncate_u128);
}
