// no replay selected
