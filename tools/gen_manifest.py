#!/usr/bin/env python3
"""Regenerates /verif/MANIFEST.json from the tables below (claimed checks + not_applicable)."""
import json, os, subprocess
V = os.path.dirname(os.path.dirname(os.path.abspath(__file__)))
NA = {
 "C01": "end-to-end hybrid_protocol is ~40 chained async sub-protocols over three communicating helpers x shards on tokio with AES/curve25519 inside; no executor/thread model in Kani and the crypto cannot be kept symbolic; no synchronous kernel states the property (DESIGN.md §3 C01)",
 "C02": "needs full malicious three-party runs with a byte-rewriting interceptor; truth rests on Fiat-Shamir/SHA-256 and MAC soundness (probabilistic, cryptographic) - not encodable (DESIGN.md §3 C02)",
 "C04": "detection holds only 'except with probability ~1/|F|' over a random r and is produced by async upgrade/multiply/reveal rounds between three helpers; neither is encodable (DESIGN.md §3 C04)",
 "C05": "sharded async shuffle keyed by PRSS (AES) with hash comparison between helpers; the only pure kernel (report packing) is a round-trip decided under C09 (DESIGN.md §3 C05)",
 "C07": "every building block is an async fn over a Context that sends/receives through the gateway and draws PRSS; there is no synchronous local kernel to encode (DESIGN.md §3 C07)",
 "C19": "reshard_try_stream is a select-driven async loop over gateway channels between shards; order agreement is about three concurrent runs (DESIGN.md §3 C19)",
 "C20": "the property lives in axum routing, tower layers, rustls certificate extraction and hyper request handling - not symbolically executable with the tools present (DESIGN.md §3 C20)",
}
TRUST = "Trusted: Kani 0.68 (rustc MIR -> goto), CBMC 6.11, CaDiCaL / z3 back ends, harness-side reference models; tracing and format! stubbed (logging outside every claim). "
CLAIMS = {
 "C08": ("Bounded model checking: for ALL operand values of full storage width the real field operators of Fp31/Fp32BitPrime/Fp61BitPrime, Gf2..Gf9Bit, Boolean and BA3..BA32 return canonical results equal to an integer / polynomial reference; moduli read from the compiled code are shown prime / irreducible by SMT factor refutation. Bounded, not a proof: wide types, Fp61 full-width products and multi-operation laws are bounded as listed in the evidence.",
         TRUST + "Also trusted: z3/cvc5, primality of 2^61-1, the textbook fact GF(2)[x]/(irreducible) is a field.",
         "Kani/CBMC proof harnesses over symbolic operands + SMT-LIB2 factor-refutation queries (z3, cvc5)"),
 "C09": ("Bounded model checking over ALL byte strings of the advertised length: deserialize accepts exactly the canonical strings and serialize(deserialize(b)) == b, for every listed Serializable type up to 128 bytes.",
         TRUST + "GenericArray views over byte arrays. Outside: curve points, QueryConfig string forms, large proof arrays.",
         "Kani/CBMC proof harnesses over symbolic byte strings"),
 "C10": ("Bounded model checking of the untrusted-input path: for records of EVERY length 0..=146 bytes and every content, the report parser and both metadata parsers return Ok/Err and never panic; accepted records expose in-bounds fields. Authenticity of HPKE is NOT claimed.",
         TRUST + "Record = Bytes::from_static view of a symbolic buffer with symbolic length. HPKE (X25519/HKDF/AES-GCM) is outside the claim.",
         "Kani/CBMC proof harnesses over symbolic-length byte strings"),
 "C11": ("Bounded model checking of the duplicate-detection kernel: for all records the tag is the ciphertext prefix, tag serde is the identity, and shard routing is in range for all tags and all shard counts. The cross-shard exchange and HashSet validator are NOT claimed.",
         TRUST + "Outside: async reshard_aad, Query::execute ordering, SipHash-based set.",
         "Kani/CBMC proof harnesses over symbolic tags, records and shard counts"),
 "C12": ("Bounded model checking of the integer, structural and validator parts: (a) noise sample -> share mapping equals (sample - shift) mod 2^width for every support point (incl. -1) at widths 8/16/32; (b) the real rejection sampler returns exactly the first draw shift+G1-G2 that lies in 0..=2*shift (both edges included, negative draws not clamped) for every outcome of its first 6 Bernoulli trials and every shift <= 10^6; (c) the truncation-point search returns the smallest n >= sensitivity whose tail mass (an arbitrary function of n in the harness) is <= delta; (d) the parameter constructors accept exactly the documented ranges (non-NaN). The numeric (epsilon, delta) law - trial probability, tail-mass formula, achieved delta - is NOT claimed.",
         TRUST + "Share-mapping harnesses replace the sampler by its contract (arbitrary value of the support); sampler harnesses script the RNG (first 6 trials arbitrary, later ones succeed); find_smallest_n stubbed in the validator harness, right_hand_side stubbed (symbolic table) in the search harness; libm / probabilities outside.",
         "Kani/CBMC proof harnesses: contract stubs for the sampler in the mapping harnesses, scripted-RNG symbolic execution of the real sampler"),
}
PENDING = {
}
def chk(pid):
    text, note, tech = CLAIMS[pid]
    return {"property_id": pid, "quick_cmd": f"./check {pid} --tier quick", "thorough_cmd": f"./check {pid} --tier thorough",
            "evidence_file": f"/verif/evidence/{pid}.json", "replay_cmd_template": f"./check {pid} --replay {{path}}",
            "engine": "kani-cbmc", "level_claimed": {"category": "model_checking", "text": text, "design_ref": f"DESIGN.md §3 {pid}"},
            "level_note": note, "technique": tech}
def main():
    extra = json.load(open(os.path.join(V, "tools", "claims_extra.json"))) if os.path.exists(os.path.join(V, "tools", "claims_extra.json")) else {}
    for k, v in extra.get("claims", {}).items():
        CLAIMS[k] = tuple(v)
    for k, v in extra.get("pending", {}).items():
        PENDING[k] = v
    hooks = subprocess.run(["git", "-C", "/repo", "log", "--format=%h %s"], capture_output=True, text=True).stdout.splitlines()
    hook_commits = [l.split()[0] for l in hooks if "verif hooks" in l]
    allp = [f"C{n:02d}" for n in range(1, 21)]
    na = []
    for p in allp:
        if p in CLAIMS: continue
        if p in NA: na.append({"property_id": p, "reason": NA[p]})
        else: na.append({"property_id": p, "reason": PENDING.get(p, "not claimed: its solver-decidable part (DESIGN.md §3) has no passing harness set yet in this tree")})
    m = {"version": 1, "setup_cmd": "./setup.sh",
         "hooks": {"guard": "cfg(kani)",
                   "enable": "set only by the Kani compiler: cargo kani -p ipa-core --lib --features 'cli test-fixture' -Z stubbing (IPA_VERIF_DIR=/verif names the harness sources included by the hook modules)",
                   "baseline_off_cmd": "cd /repo && cargo nextest run --workspace --no-fail-fast --tool-config-file pb:/w/lib/nextest.toml --profile pb --test-threads 8 --offline",
                   "source_commits": hook_commits[::-1], "add_only": True},
         "engines": [{"name": "kani-cbmc", "path": "/verif/check", "serves_properties": sorted(CLAIMS),
                      "kind_free_text": "Kani 0.68 / CBMC 6.11 bounded model checking of the real ipa-core functions (in-crate #[cfg(kani)] harnesses included from /verif/harness), CaDiCaL / z3 back ends"},
                     {"name": "smt-side-queries", "path": "/verif/lib/smt_run.py", "serves_properties": ["C08"],
                      "kind_free_text": "SMT-LIB2 bit-vector queries (z3 4.8.12, cvc5 1.0) on moduli read out of the compiled code: irreducibility / primality by factor refutation"}],
         "checks": [chk(p) for p in sorted(CLAIMS)],
         "notes": "Solver-based checking of the real code only; see DESIGN.md. Properties not claimed are listed under not_applicable with the reason.",
         "not_applicable": na}
    json.dump(m, open(os.path.join(V, "MANIFEST.json"), "w"), indent=1)
    print("claimed:", sorted(CLAIMS), "na:", [x["property_id"] for x in na])
main()
