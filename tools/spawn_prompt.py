#!/usr/bin/env python3
"""Prints the mutation-agent prompt for a property id and worktree name (text of the property only)."""
import json, sys
pid, wt = sys.argv[1], sys.argv[2]
p = [json.loads(l) for l in open('/verif/properties.jsonl') if json.loads(l)['id'] == pid][0]
files = ", ".join(p['anchors']['files'])
print(f"""You are helping test a verification effort by producing realistic *bug-introducing* changes (mutations) to a Rust codebase. Work ONLY inside the git worktree at /tmp/wt/{wt} (a checkout of the `private-attribution/ipa` repository: a Rust prototype of three-party MPC "Interoperable Private Attribution"; the main crate is `ipa-core`). Do NOT touch /repo or /verif, and do not read anything under /verif. The sandbox has no network: always pass `--offline` to cargo (or set CARGO_NET_OFFLINE=true). A prebuilt `target/` directory has been copied into the worktree to speed up builds.

The semantic property under test:

"{p['title']}. {p['statement']}"

Relevant code (paths under the repository root): {files}.

Your task: produce THREE independent changes (each a separate small patch against the worktree's HEAD) to the non-test source of `ipa-core` that each BREAK this property while (a) still compiling and (b) still passing the existing test suite. Prefer changes that need something specific to manifest - a particular interleaving or order of operations, a fault at a particular point, a multi-step sequence of operations, an unusual/boundary input (empty, exactly at a limit, a particular length or index), or two cooperating sites that each look fine alone - not ones that ordinary use or the existing tests would expose at once. Make them look like plausible refactoring/optimisation slips, and make the three different in kind and located in different functions. At least two of the three should be in synchronous, deterministic code (pure functions, data-structure methods, parsers, constructors, validators, index/offset arithmetic) rather than in async protocol orchestration. Do not edit any existing test.

For each change provide a demonstration: a new small unit test (kept separate from the patch of the change itself) that FAILS with the change applied and PASSES without it.

How to check: the existing suite for the affected crate can be run with
  cd /tmp/wt/{wt} && cargo nextest run -p ipa-core --lib --offline --test-threads 8 --no-fail-fast 2>&1 | tail -30
A full run takes a few minutes; you can restrict to relevant modules first for a fast pre-check, but a final full `-p ipa-core --lib` run with the change applied must pass (check the baseline at HEAD first if something fails). Some tests are randomized; a change is acceptable only if the suite passes reliably (run the relevant module tests 3 times).

Deliverables, written under /tmp/wt/{wt}/OUT/ (create it):
  OUT/1/patch.diff   (output of `git diff` for change 1 only, source change only, applies to HEAD with `git apply`)
  OUT/1/demo.diff    (a patch adding the demonstration test; applies on top of HEAD independently of patch.diff)
  OUT/1/README.md    (what the change is, what it needs in order to manifest, the exact commands you ran and their results: suite pass with the change, demo fails with / passes without)
  and likewise OUT/2, OUT/3.
After producing each patch, reset the worktree (`git checkout -- . && git clean -fd -e OUT -e target -e Cargo.lock`) before starting the next one, so patches are independent. Never use `git stash` (the stash is shared with the main repository). At the end leave the worktree clean except for OUT/. Report back a short summary of the three changes (file, function, what triggers it) and whether all verification steps succeeded.""")
