"""SMT-LIB2 side queries (engine E2). Filled in per property in smt_*.py modules."""


def run_for(pid, tier):
    return {"queries": []}
