"""SMT-LIB2 side queries (engine E2, DESIGN.md §2.3) - used by C08 only.

The moduli are read out of the *compiled* code: harness c08_gf::moduli::q08_export_moduli has a
kani::cover!(p == [POLYNOMIAL.., PRIME..]); Kani's concrete playback prints the satisfying p.
Queries (z3 always, cvc5 as a second opinion where it is fast enough):
  * GF(2)[x]: for every d in 1..n/2:  exists f (deg d), g (deg n-d): clmul(f, g) == POLYNOMIAL ?   (unsat = no factor)
  * Fp32BitPrime: exists f in [2^(L-1), 2^L), g >= f: f * g == PRIME ?  for L = 2..16          (unsat = prime)
  * Fp31: same, 8-bit.   Fp61BitPrime: PRIME == 2^61 - 1 is matched bit for bit; primality of M61 is a
    trusted textbook fact (a 61-bit factoring refutation is out of reach of the solvers present).
A `sat` answer yields a factor pair which is replayed natively through the real `Mul` (f * g == 0).
"""
import os
import re
import subprocess
import time

import kani_run

Z3 = "/usr/bin/z3"
CVC5 = "cvc5"

GF = [("Gf2", 1), ("Gf3Bit", 3), ("Gf8Bit", 8), ("Gf9Bit", 9), ("Gf20Bit", 20), ("Gf32Bit", 32), ("Gf40Bit", 40)]
PF = [("Fp31", 8), ("Fp32BitPrime", 32), ("Fp61BitPrime", 61)]


def read_moduli():
    r = kani_run.run_kani(["c08_gf::moduli::q08_export_moduli"], 1, 120, 16, exact=False, playback=True,
                          logname="C08-moduli.log")
    hr = None
    for k, v in r["results"].items():
        if k.endswith("q08_export_moduli"):
            hr = v
    if not hr or "playback" not in hr:
        return None
    text = "\n".join(hr["playback"])
    vals = []
    for m in re.finditer(r"vec!\[([0-9,\s]+)\]", text):
        bs = [int(x) for x in m.group(1).replace("\n", " ").split(",") if x.strip()]
        if len(bs) == 16:
            vals.append(int.from_bytes(bytes(bs), "little"))
    if len(vals) != 10:
        return None
    return vals


def solve(solver, text, timeout):
    """check-sat first; the model is requested in a second run only after `sat`
    (a `(get-model)` after unsat prints an (error ...) line, and any error line is treated as inconclusive)."""
    body = text.replace("(get-model)\n", "")
    res, out, dt = solve1(solver, body, timeout)
    if res == "sat" and "(get-model)" in text:
        res2, out2, dt2 = solve1(solver, text, timeout)
        if res2 == "sat":
            return res2, out2, dt + dt2
    return res, out, dt


def solve1(solver, text, timeout):
    cmd = [Z3, "-smt2", "-in"] if solver == "z3" else [CVC5, "--lang", "smt2", "--produce-models"]
    t = time.time()
    try:
        p = subprocess.run(cmd, input=text, capture_output=True, text=True, timeout=timeout)
        out = p.stdout + p.stderr
    except subprocess.TimeoutExpired:
        return "timeout", "", time.time() - t
    dt = time.time() - t
    if "(error" in out:
        return "error", out, dt
    first = out.strip().splitlines()[0] if out.strip() else ""
    if first in ("sat", "unsat"):
        return first, out, dt
    return "unknown", out, dt


def model_val(out, name):
    m = re.search(r"\(define-fun %s \(\) \(_ BitVec \d+\)\s+#(x[0-9a-fA-F]+|b[01]+)\)" % name, out)
    if not m:
        return None
    v = m.group(1)
    return int(v[1:], 16) if v[0] == "x" else int(v[1:], 2)


def gf_factor_query(n, d, poly):
    w = n + 1
    e = n - d
    lines = ["(set-logic ALL)", f"(declare-const f (_ BitVec {w}))", f"(declare-const g (_ BitVec {w}))",
             f"(assert (= ((_ extract {w-1} {d}) f) (_ bv1 {w-d})))",
             f"(assert (= ((_ extract {w-1} {e}) g) (_ bv1 {w-e})))"]
    acc = f"(_ bv0 {w})"
    for i in range(d + 1):
        acc = f"(bvxor {acc} (ite (= ((_ extract {i} {i}) f) #b1) (bvshl g (_ bv{i} {w})) (_ bv0 {w})))"
    lines += [f"(assert (= {acc} (_ bv{poly} {w})))", "(check-sat)", "(get-model)"]
    return "\n".join(lines) + "\n"


def prime_factor_query(w, L, p):
    W = 2 * w
    return f"""(set-logic ALL)
(declare-const f (_ BitVec {W}))
(declare-const g (_ BitVec {W}))
(assert (bvuge f (_ bv{1 << (L - 1)} {W})))
(assert (bvult f (_ bv{1 << L} {W})))
(assert (bvuge g f))
(assert (bvult g (_ bv{1 << w} {W})))
(assert (= (bvmul f g) (_ bv{p} {W})))
(check-sat)
(get-model)
"""


def write_gf_replay(pid, name, f, g):
    d = os.path.join(kani_run.VERIF, "replays", pid)
    os.makedirs(d, exist_ok=True)
    path = os.path.join(d, f"smt_{name}_zero_divisor.rs")
    with open(path, "w") as fh:
        fh.write(f"""// hook: root\n// SMT counterexample: POLYNOMIAL of {name} = f * g over GF(2)[x], so f and g are zero divisors.
// replay: ./check {pid} --replay {path}
#[test]
fn smt_replay_{name.lower()}_zero_divisor() {{
    use crate::ff::{{{name}, U128Conversions}};
    use crate::secret_sharing::SharedValue;
    let f = {name}::truncate_from({f}_u128);
    let g = {name}::truncate_from({g}_u128);
    assert!(f != {name}::ZERO && g != {name}::ZERO);
    assert!(f * g != {name}::ZERO, "zero divisors: {f:#x} * {g:#x} == 0 in {name}");
}}
""")
    return path


def run_for(pid, tier):
    if pid != "C08":
        return {"queries": []}
    queries = []
    mods = read_moduli()
    if mods is None:
        return {"queries": [{"harness": "smt::read_moduli", "verdict": "error", "solver_time_s": 0,
                             "note": "could not read POLYNOMIAL/PRIME constants out of the compiled code"}]}
    timeout = 300 if tier == "quick" else 3600
    for (name, n), poly in zip(GF, mods[:7]):
        q = {"harness": f"smt::{name}::polynomial_irreducible", "modulus": hex(poly), "degree": n,
             "queries": 0, "solver_time_s": 0.0, "solvers": ["z3"], "check": "POLYNOMIAL is irreducible"}
        verdict = "pass"
        if poly.bit_length() != n + 1:
            verdict = "fail"
            q["note"] = "degree of POLYNOMIAL != BITS"
        for d in range(1, n // 2 + 1):
            if verdict != "pass":
                break
            text = gf_factor_query(n, d, poly)
            res, out, dt = solve("z3", text, timeout)
            q["queries"] += 1
            q["solver_time_s"] += dt
            use_cvc5 = (n <= 32) or tier == "thorough"
            if use_cvc5:
                res2, out2, dt2 = solve("cvc5", text, timeout)
                q["queries"] += 1
                q["solver_time_s"] += dt2
                if "cvc5" not in q["solvers"]:
                    q["solvers"].append("cvc5")
                if res2 in ("sat", "unsat") and res in ("sat", "unsat") and res != res2:
                    verdict = "error"
                    q["note"] = f"solver disagreement at factor degree {d}"
                    break
            if res == "sat":
                f, g = model_val(out, "f"), model_val(out, "g")
                q["factor_degree"] = d
                q["witness"] = {"f": hex(f) if f is not None else None, "g": hex(g) if g is not None else None}
                verdict = "fail"
                if f is not None and g is not None:
                    path = write_gf_replay(pid, name, f, g)
                    q["replay"] = path
                break
            if res != "unsat":
                verdict = res  # timeout / error / unknown: inconclusive
                q["note"] = f"factor degree {d}: {res}"
                break
        q["verdict"] = verdict
        q["solver_time_s"] = round(q["solver_time_s"], 3)
        queries.append(q)

    for (name, w), p in zip(PF, mods[7:]):
        q = {"harness": f"smt::{name}::prime_modulus", "modulus": p, "queries": 0, "solver_time_s": 0.0,
             "solvers": ["z3"], "check": "PRIME is prime"}
        verdict = "pass"
        if name == "Fp61BitPrime":
            # matched against the Mersenne number; primality of M61 is a trusted fact
            q["note"] = "PRIME == 2^61-1 checked; primality of M61 trusted (61-bit factoring refutation out of reach)"
            if p != (1 << 61) - 1:
                verdict = "unknown"
                q["note"] = "PRIME is not 2^61-1: primality cannot be decided by the solvers present"
        else:
            half = (p.bit_length() + 1) // 2
            for L in range(2, half + 1):
                res, out, dt = solve("z3", prime_factor_query(w, L, p), timeout)
                q["queries"] += 1
                q["solver_time_s"] += dt
                if res == "sat":
                    f, g = model_val(out, "f"), model_val(out, "g")
                    q["witness"] = {"f": f, "g": g}
                    verdict = "fail"
                    break
                if res != "unsat":
                    verdict = res
                    q["note"] = f"factor bit-length {L}: {res}"
                    break
        q["verdict"] = verdict
        q["solver_time_s"] = round(q["solver_time_s"], 3)
        queries.append(q)

    # a reducible polynomial is reported only after the factor pair multiplies to zero natively
    for q in queries:
        if q["verdict"] == "fail" and q.get("replay"):
            status, _out = kani_run.native_replay(q["replay"])
            q["reproduced"] = status == "reproduced"
            q["native"] = status
    return {"queries": queries}
