"""Static per-property description used by the driver and copied into the evidence files."""

PROPS = {
    "C08": {
        "design_ref": "DESIGN.md §3 C08",
        "functions_encoded": [
            "ff::prime_field::{Fp31,Fp32BitPrime,Fp61BitPrime}::{add,sub,mul,neg,add_assign,sub_assign,mul_assign,eq,ct_eq,"
            "try_from,truncate_from,from_random_u128,serialize,deserialize,as_u128}",
            "ff::prime_field::Fp61BitPrime::{modulo_prime_u128,const_truncate,from_bit}",
        ],
        "bounds": "full storage width of every operand (8/32/61-bit elements, u128 for truncate_from); no loops",
        "outside_claim": "Fp25519/RP25519 (curve25519-dalek arithmetic)",
        "assumptions": [
            "elements are built from raw storage words by transmute under the representation invariant v < PRIME",
            "logging (tracing) and alloc::fmt::format are stubbed out",
        ],
    },
}
