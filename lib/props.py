"""Static per-property description used by the driver and copied into the evidence files."""

PROPS = {
    "C08": {
        "design_ref": "DESIGN.md §3 C08",
        "functions_encoded": [
            "ff::prime_field::{Fp31,Fp32BitPrime,Fp61BitPrime}::{add,sub,mul,neg,add_assign,sub_assign,mul_assign,eq,ct_eq,"
            "try_from,truncate_from,from_random_u128,serialize,deserialize,as_u128}",
            "ff::prime_field::Fp61BitPrime::{modulo_prime_u128,const_truncate,from_bit}",
        ],
        "bounds": "full storage width of every operand (8/32/61-bit elements, u128 for truncate_from); no loops",
        "outside_claim": "Fp25519/RP25519 (curve25519-dalek arithmetic)",
        "assumptions": [
            "elements are built from raw storage words by transmute under the representation invariant v < PRIME",
            "logging (tracing) and alloc::fmt::format are stubbed out",
        ],
    },
    "C09": {
        "design_ref": "DESIGN.md §3 C09",
        "functions_encoded": [
            "<T as ff::Serializable>::{serialize,deserialize} for T in Fp31, Fp32BitPrime, Fp61BitPrime, Boolean, Gf2..Gf40Bit, "
            "BA3..BA256, UniqueTag, Seed, (Seed,Seed), Hash, AdditiveShare<T> (10 instantiations), StdArray<T,1>, StdArray<Fp32BitPrime,32>",
        ],
        "bounds": "all 2^(8N) byte strings of the advertised length N for every listed type (N <= 128 bytes); no value sampling",
        "outside_claim": "RP25519/Fp25519 (curve arithmetic), QueryConfig through serde_urlencoded/serde_json, "
                         "Box<[Fp61BitPrime; ARRAY_LEN]> / [Hash; 14] proof arrays (heap Vec collection of 100+ elements)",
        "assumptions": [
            "GenericArray buffers are views over plain byte arrays (from_slice / from_mut_slice)",
            "logging (tracing) and alloc::fmt::format are stubbed out",
        ],
    },
}
