"""Static per-property description used by the driver and copied into the evidence files."""

PROPS = {
    "C08": {
        "design_ref": "DESIGN.md §3 C08",
        # slowest quick harness ~100 s on an idle 16-core machine: margin for loaded hosts
        "tiers": {"quick": {"harness_timeout_s": 600}},
        "functions_encoded": [
            "ff::prime_field::{Fp31,Fp32BitPrime,Fp61BitPrime}::{add,sub,mul,neg,add_assign,sub_assign,mul_assign,eq,ct_eq,"
            "try_from,truncate_from,from_random_u128,serialize,deserialize,as_u128}",
            "ff::prime_field::Fp61BitPrime::{modulo_prime_u128,const_truncate,from_bit}", "PrimeField::invert (Fp31)",
            "ff::galois_field::{Gf2,Gf3Bit,Gf8Bit,Gf9Bit,Gf20Bit,Gf32Bit,Gf40Bit}::{add,sub,neg,mul,as_u128,cmp,index,truncate_from,try_from}, clmul",
            "ff::boolean::Boolean::*", "ff::boolean_array::BA*::{add,sub,mul,neg,not,mul<Boolean>,get,set,expand,truncate_from,as_u128,try_from}",
            "ff::accumulator::Accumulator::{new,from,multiply_accumulate,take} (scalar and array)",
        ],
        "bounds": "full storage width of every operand (8/32/61-bit elements incl. the 61x61-bit product; u128 for Fp61 truncate_from, u64/u32 for Fp32/Fp31); BA/Gf widths as listed per harness; accumulator by induction over an arbitrary (value, count) state",
        "outside_claim": "Fp25519/RP25519 (curve25519-dalek arithmetic); invert for the 32/61-bit primes; batch_invert; Lagrange tables; share / StdArray arithmetic; Mul of Gf20/32/40Bit against the reference (thorough tier only)",
        "assumptions": [
            "elements are built from raw storage words by transmute under the representation invariant v < PRIME",
            "logging (tracing) and alloc::fmt::format are stubbed out",
        ],
    },
    "C09": {
        "design_ref": "DESIGN.md §3 C09",
        "tiers": {"quick": {"harness_timeout_s": 900}},
        # harnesses with ~1 KiB of symbolic input: Kani cannot emit / parse a concrete test for them; a
        # counterexample decided twice by the solver is reported with a solver-rerun replay file
        "solver_rerun_ok": ["q09_transpose_ba64_64x64"],
        "expected_panics": {"q09_share_slice_partial_record_mustpanic": [r"assertion failed: from\.len\(\) %", r"Slice must be the same length as the array", r"assertion `left == right` failed"]},
        "functions_encoded": [
            "<T as ff::Serializable>::{serialize,deserialize} for T in Fp31, Fp32BitPrime, Fp61BitPrime, Boolean, Gf2..Gf40Bit, "
            "BA3..BA256, UniqueTag, Seed, (Seed,Seed), Hash, AdditiveShare<T> (10 instantiations), StdArray<T,1>, StdArray<Fp32BitPrime,32>, [Fp61BitPrime;15]::serialize",
            "secret_sharing::vector::transpose::{transpose_8x8, transpose_16x16, <[BA64;64] as TransposeFrom<&[BA64;64]>>::transpose_from}",
        ],
        "bounds": "all 2^(8N) byte strings of the advertised length N for every listed type (N <= 128 bytes); all 8x8, 16x16 and 64x64 bit matrices (destination pre-filled with arbitrary data) with a symbolic (row, column)",
        "outside_claim": "RP25519/Fp25519 (curve arithmetic), QueryConfig through serde_urlencoded/serde_json, "
                         "Box<[Fp61BitPrime; ARRAY_LEN]> / [Hash; 14] proof arrays (heap Vec collection of 100+ elements)",
        "assumptions": [
            "GenericArray buffers are views over plain byte arrays (from_slice / from_mut_slice)",
            "logging (tracing) and alloc::fmt::format are stubbed out",
        ],
    },
    "C10": {
        "design_ref": "DESIGN.md §3 C10",
        "functions_encoded": [
            "report::hybrid::EncryptedHybridReport::<BA8,BA3>::{from_bytes,try_from,encap_key_mk,mk_ciphertext,encap_key_btt,btt_ciphertext,key_id}",
            "report::hybrid::Encrypted{Impression,Conversion}Report::from_bytes", "report::hybrid_info::{HybridImpressionInfo,HybridConversionInfo}::{from_bytes,to_enc_bytes}", "hpke::registry::KeyRegistry::{from_keys,empty,key,private_key}",
        ],
        "bounds": "records of every length 0..=146 bytes with arbitrary contents (length is a symbolic variable)",
        "outside_claim": "HPKE authenticity / round-trip (X25519+HKDF+AES-GCM on symbolic bytes), so 'a flipped bit makes decryption fail' is NOT claimed; records longer than 125 bytes",
        "assumptions": ["record bytes are a Bytes::from_static view of a leaked symbolic buffer",
                        "logging (tracing) and alloc::fmt::format are stubbed out"],
    },
    "C11": {
        "design_ref": "DESIGN.md §3 C11",
        "functions_encoded": [
            "report::hybrid::UniqueTag::{from_unique_bytes,shard_picker,serialize,deserialize}",
            "<EncryptedHybridReport<BA8,BA3> as UniqueBytes>::unique_bytes",
        ],
        "bounds": "all 16-byte tags, all shard counts 1..=2^32-1, records of every length 0..=146",
        "outside_claim": "the async reshard_aad exchange, Query::execute ordering, HashSet-based UniqueTagValidator (SipHash on symbolic bytes)",
        "assumptions": ["logging (tracing) and alloc::fmt::format are stubbed out"],
    },
    "C12": {
        "design_ref": "DESIGN.md §3 C12",
        "functions_encoded": [
            "protocol::dp::ShiftedTruncatedDiscreteLaplace::{new,sample_shares} (BA8/BA16/BA32, both directions)",
            "protocol::dp::NoiseParams::new",
            "protocol::ipa_prf::oprf_padding::insecure::OPRFPaddingDp::{new,get_shift}, distributions::TruncatedDoubleGeometric::new",
            "oprf_padding::insecure::find_smallest_n (search loop; right_hand_side replaced by an arbitrary function of n)",
            "distributions::{Geometric,DoubleGeometric,TruncatedDoubleGeometric}::sample with rand::distributions::Bernoulli::sample (scripted trial outcomes)",
        ],
        "bounds": "every sample of the support 0..=2*shift, every shift <= 2^20 with 2*shift < 2^width, widths 8/16/32, both directions; all non-NaN f64 / u32 parameter values for the validators; sampler structure (sample == first draw shift+G1-G2 inside 0..=2*shift) for every outcome of the first 6 (thorough: 8) Bernoulli trials per call (later trials succeed) and every shift <= 10^6",
        "outside_claim": "the Bernoulli trial probability 1-exp(-1/s) and the tail-mass formula right_hand_side (libm powf), hence the numeric (epsilon, delta) law, achieved delta (libm powf/exp, unbounded search, probabilities); NaN parameters; dummy-record generation (async)",
        "assumptions": ["the truncated sampler is replaced by its contract: an arbitrary value of 0..=2*shift (share-mapping harnesses)",
                        "sampler-structure harnesses: the RNG is a script whose first 6 draws are 0 or u64::MAX by symbolic choice (Bernoulli success / failure for any 0 < p < 1), later draws succeed",
                        "OPRFPaddingDp::new / get_shift stubbed in the mapping harnesses (shift symbolic); find_smallest_n stubbed to 'some n >= sensitivity' in the validator harness; in the search harness right_hand_side is a symbolic table for the first 4 candidates and 0 afterwards (the search then ends at sensitivity+4 at the latest)",
                        "logging (tracing) and alloc::fmt::format are stubbed out"],
    },
    "C13": {
        "design_ref": "DESIGN.md §3 C13",
        "expected_panics": {"q13_total_records_redeclare_mustpanic": [r"TotalRecords bad transition", r"TotalRecords needs a specific value"]},
        "functions_encoded": ["helpers::gateway::send::SendChannelConfig::new_with", "utils::power_of_two::{NonZeroU32PowerOfTwo::try_from, get, to_non_zero_usize, non_zero_prev_power_of_two}", "helpers::TotalRecords::{specified,count,is_last,is_specified,is_indeterminate,overwrite}", "helpers::gateway::GatewayConfig::{set_active_work_from_query_config,active_work}", "<helpers::transport::LogErrors as Stream>::poll_next (scripted inner stream)"],
        "bounds": "one LogErrors step for every kind of next inner item (pending / 2-byte chunk of arbitrary contents / transport error / end) followed by an arbitrary second item; active = 2^k for k <= 20, configured read size 1..=2^24, record sizes {1,2,3,8,14,16,20,32,4095,4096} (instantiated), all three TotalRecords kinds; all usize for the power-of-two helpers",
        "outside_claim": "everything about messages in flight: channel routing, batching, rendezvous, deadlock-freedom of running tasks (tokio, DashMap, spawned streams)",
        "assumptions": ["logging (tracing) and alloc::fmt::format are stubbed out"],
    },
    "C18": {
        "design_ref": "DESIGN.md §3 C18",
        "functions_encoded": ["query::state::min_status", "query::state::QueryState::transition", "query::state::{RunningQueries::handle, QueryHandle::{set_state,status,remove_query_on_drop}, RemoveQuery::{restore,drop}}", "From<&QueryState> for QueryStatus"],
        "bounds": "all status pairs/triples; all (current, target) pairs over the constructible states {Empty, Preparing, AwaitingInputs, AwaitingCompletion}; every history of 2 store operations out of 6 kinds",
        "outside_claim": "Processor's async API (new_query, prepare, inputs, complete, kill), coordinator/follower and shard fan-out; the Running and Completed states as transition targets (tokio JoinHandle; Box<dyn> drop glue); (Empty -> AwaitingCompletion/Completed), which panics by documented design and is not reachable through the Processor API",
        "assumptions": ["logging (tracing) and alloc::fmt::format are stubbed out"],
    },
    "C14": {
        "design_ref": "DESIGN.md §3 C14",
        # q14_waiting_shard_add_step needs ~170 s on an idle 16-core machine: keep a wide margin on loaded hosts
        "tiers": {"quick": {"harness_timeout_s": 900}},
        "functions_encoded": ["helpers::buffers::circular::CircularBuf::{new,next,take,close,len,can_read,can_write,is_closed,capacity,range,inc,mask,wrap}", "circular::Next::write", "<[u8] as BufWriteable>::write",
                              "helpers::buffers::ordering_sender::WaitingShard::{add,wake}", "ordering_sender::State::{new,write,take,close,save_waker,wake}", "<M: Serializable as BufWriteable>::write", "unordered_receiver::OperatingState::{poll_next (end of stream; record served from the spare buffer, Ok and decoding error), add_waker, wake_next}, unordered_receiver::Spare::read"],
        "bounds": "inductive step from an arbitrary state satisfying the representation invariant (all cursor positions incl. wrap-around, all contents, open/closed), one symbolic operation; (capacity, write, read) in {(4,2,2),(4,2,4),(6,2,4),(6,3,3),(3,1,2),(8,2,4)} quick, plus (8,1,8),(16,4,8),(12,3,6) thorough; histories of any length follow by induction for these triples; waker bookkeeping of the ordered sender as single steps from an arbitrary shard with 0, 1 or 2 parked wakers (symbolic indices and woken_at); receiver: two consecutive polls over a 2-byte spare buffer with arbitrary contents (1-byte Fp31 records, cursor 0, ring capacity 2, the following request parked)",
        "outside_claim": "thread interleavings of OrderingSender / UnorderedReceiver (Kani has no thread model): only the per-step invariants of the wake-up protocol are decided, not schedules; the receiver's waker ring with a symbolic cursor (CBMC runs out of memory in post-processing) and poll_next over stream chunks (Spare::extend: CBMC aborts on the GenericArray::default() write); other (capacity, write, read) triples",
        "assumptions": ["representation invariant: cursors < 2*capacity, aligned to write size, (write-read) mod 2*capacity <= capacity",
                        "logging (tracing) and alloc::fmt::format are stubbed out"],
    },
    "C16": {
        "design_ref": "DESIGN.md §3 C16",
        "functions_encoded": ["protocol::context::batcher::Batcher::{new,is_ready_for_validation,get_batch_by_offset,batch_offset,is_empty}"],
        # per-loop bound for tokio's BigNotify (8 Notify cells) so that the global unwind can stay at the
        # number of batches; passed through to CBMC (--unwindset wins over the harness-wide --unwind)
        "cbmc_args": ["--unwindset", "_RNvMNtNtNtCskhKtYjmOFG6_5tokio4sync5watch10big_notifyNtB2_9BigNotify14notify_waiters.0:9"],
        "bounds": "all arrival permutations (symbolic) of totals 3 with 1 or 2 records per batch (quick); totals 4, 5 with 2 or 3 per batch (thorough)",
        "outside_claim": "the verdict fan-out through tokio::sync::watch inside validate_record's async block (Kani compiler ICE on watch::Receiver), concurrent polling from several threads, DZKPUpgraded wiring",
        "assumptions": ["the batch object is its own index (batch_constructor = identity)",
                        "logging (tracing) and alloc::fmt::format are stubbed out"],
    },
    "C06": {
        "design_ref": "DESIGN.md §3 C06",
        "expected_panics": {"q06_prss_index_from_oversized_u128_mustpanic": ["PRSS indices need to be smaller"]},
        "functions_encoded": ["protocol::prss::internal::PrssIndex128::{new,index,TryFrom<u128>,Into<u64>,Into<u128>}", "protocol::context::validator::Malicious::{u_record,w_record,r_share_record,reveal_check_zero_record}"],
        "bounds": "all 2^32 indices x all usize offsets; all validator batch offsets < 2^28",
        "outside_claim": "every statement about generated VALUES (AES/HKDF/X25519: pairwise agreement, independence); the debug-only UsedSet; absence of repeated (step, index) draws in whole protocol runs; the DZKP per-batch PRSS ranges (constants local to an async fn)",
        "assumptions": ["logging (tracing) and alloc::fmt::format are stubbed out"],
    },
    "C17": {
        "design_ref": "DESIGN.md §3 C17",
        "functions_encoded": ["helpers::transport::stream::input::{RecordsStream<_,_,Single>::poll_next, BufDeque::{read_bytes,try_read,extend,read_infallible}, LengthDelimitedStream::poll_next}"],
        "bounds": "streams of 0, 4 and 5 symbolic bytes, 2-byte fallible records; all 8 chunkings of the 4-byte stream plus layouts with empty chunks (layouts instantiated, bytes symbolic); source returns Pending at up to 2 solver-chosen polls",
        "outside_claim": "streams longer than 5 bytes, record sizes other than 2, Batch mode, BufferedBytesStream, process_slice_by_chunks, axum body adapters",
        "assumptions": ["chunks are Bytes::from_static views of one leaked symbolic buffer (symbolic-length Bytes do not terminate in CBMC)",
                        "logging (tracing) and alloc::fmt::format are stubbed out"],
    },
    "C03": {
        "design_ref": "DESIGN.md §3 C03",
        "functions_encoded": ["protocol::context::dzkp_field::{TABLE_U, TABLE_V (LazyLock initialisers), bits_to_table_indices}", "<Fp61BitPrime as DZKPBaseField>::{INVERSE_OF_TWO, MINUS_ONE_HALF, MINUS_TWO}"],
        "bounds": "all 128 combinations of the six intermediates and the claimed product bit (one query over the real tables); all 2^384 inputs of the index packing with a symbolic bit position",
        "outside_claim": "recursive proof compression (ProofBatch::generate, BatchToVerify::verify, Lagrange tables, SHA-256 Fiat-Shamir challenges), segment packing into 256-bit blocks and the 256-bit block conversions (bitvec load/store on 256-bit arrays: > 500 s per operation under CBMC), batching across steps - hence NOT the end-to-end 'accepted iff consistent'",
        "assumptions": ["logging (tracing) and alloc::fmt::format are stubbed out"],
    },
    "C15": {
        "design_ref": "DESIGN.md §3 C15",
        "functions_encoded": ["seq_join::seq_join", "seq_join::local::SequentialFutures::{new,poll_next}", "seq_join::local::ActiveItem::{check_ready,take}"],
        "bounds": "N = 2 tasks with window 1 and 2 (4 polls), N = 3 with window 2 (5 polls); completion order chosen by the solver before every poll (all monotone readiness schedules); source stream always ready",
        "outside_claim": "N > 3 (quick) / N > 4 (thorough), source streams that return Pending, seq_try_join_all / parallel_join, the multi-threaded implementation (feature-gated, unsafe, real threads)",
        "assumptions": ["tasks are harness futures whose readiness is a solver-controlled flag; wakers are no-ops (the harness polls unconditionally)",
                        "logging (tracing) and alloc::fmt::format are stubbed out"],
    },
}
