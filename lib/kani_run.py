"""Driver: run Kani/CBMC harnesses (and SMT side queries) for one property, decide, write evidence."""
import json
import os
import re
import resource
import shutil
import subprocess
import sys
import time

VERIF = os.path.dirname(os.path.dirname(os.path.abspath(__file__)))
REPO = os.environ.get("IPA_REPO", "/repo")
WORK = os.environ.get("IPA_VERIF_WORK", "/var/tmp/ipa-verif")
TARGET = os.path.join(WORK, "kani-target")
PLAYBACK_TARGET = os.path.join(WORK, "playback-target")
FEATURES = "cli test-fixture"

import props  # noqa: E402
import smt_run  # noqa: E402


MAX_NATIVE_REPLAYS = 2
DEFAULT_STUBS = {"alloc::fmt::format", "core::result::unwrap_failed", "tracing::level_filters::LevelFilter::current", "tracing::Event::dispatch",
                 "tracing::__macro_support::__is_enabled", "tracing::callsite::DefaultCallsite::interest"}


def log(msg):
    print(msg, flush=True)


def base_env():
    env = dict(os.environ)
    env["IPA_VERIF_DIR"] = VERIF
    env["CARGO_NET_OFFLINE"] = "true"
    env.setdefault("IPA_VERIF_REPLAY_DIR", os.path.join(VERIF, "replays", "slots"))
    env.pop("RUSTFLAGS", None)
    env.pop("CARGO_TARGET_DIR", None)
    return env


def limit_mem(gb):
    def f():
        lim = int(gb * (1 << 30))
        resource.setrlimit(resource.RLIMIT_AS, (lim, lim))
        os.setsid()
    return f


def clean_old_builds(max_age_s=4 * 3600):
    """Every distinct harness selection leaves a build dir with one goto binary per harness."""
    d = os.path.join(TARGET, "kani", "x86_64-unknown-linux-gnu", "debug", "build", "ipa-core")
    now = time.time()
    try:
        for e in os.listdir(d):
            p = os.path.join(d, e)
            if now - os.path.getmtime(p) > max_age_s:
                shutil.rmtree(p, ignore_errors=True)
    except FileNotFoundError:
        pass


def kani_cmd(filters, jobs, harness_timeout_s, exact=False, playback=False, cbmc_args=None):
    cmd = ["cargo", "kani", "-p", "ipa-core", "--lib", "--features", FEATURES,
           "-Z", "stubbing", "-Z", "unstable-options",
           "--harness-timeout", f"{int(harness_timeout_s)}s",
           "--target-dir", TARGET, "--output-format", "terse"]
    if jobs and jobs > 1:
        cmd += ["-j", str(jobs)]
    if exact:
        cmd += ["--exact"]
    if playback:
        cmd += ["-Z", "concrete-playback", "--concrete-playback=print"]
    for f in filters:
        cmd += ["--harness", f]
    if cbmc_args:
        cmd += ["--cbmc-args"] + list(cbmc_args)  # must be last
    return cmd


RE_CHECKING = re.compile(r"^(?:Thread (\d+): )?Checking harness (\S+?)\.\.\.$")
RE_THREAD_BLOCK = re.compile(r"^Thread (\d+):\s*$")
RE_FAILED_OF = re.compile(r"^ \*\* (\d+) of (\d+) failed")
RE_COVER = re.compile(r"^ \*\* (\d+) of (\d+) cover properties satisfied")
RE_TIME = re.compile(r"^Verification Time: ([0-9.eE+-]+)s")
RE_FAILED_CHECK = re.compile(r'^Failed Checks: (.*)$')
RE_FILE = re.compile(r'^ File: "(.*?)", line (\d+), in (\S+)')
RE_CBMC_STATUS = re.compile(r"^CBMC failed with status (\d+)")


def parse_kani_output(text):
    """Returns dict harness -> result dict, plus compile status."""
    res = {}
    cur_by_thread = {}
    cur = None  # harness whose block we are reading
    compile_failed = False
    in_playback = None
    for raw in text.splitlines():
        line = raw.rstrip("\n")
        m = RE_CHECKING.match(line)
        if m:
            tid, name = m.group(1), m.group(2)
            cur_by_thread[tid] = name
            res.setdefault(name, new_result(name))
            if tid is None:
                cur = name
            else:
                cur = None
            continue
        m = RE_THREAD_BLOCK.match(line)
        if m:
            cur = cur_by_thread.get(m.group(1))
            continue
        if line.startswith("Thread "):
            # "Thread k:   - Stub: ..." etc.
            cur = None
            continue
        if line.startswith("Manual Harness Summary") or line.startswith("Complete - "):
            cur = None
            continue
        if line.startswith("error: could not compile") or line.startswith("error[E") or "Failed to execute cargo" in line:
            compile_failed = True
        if cur is None:
            continue
        r = res[cur]
        m = RE_FAILED_OF.match(line)
        if m:
            r["checks_failed"], r["checks_total"] = int(m.group(1)), int(m.group(2))
            continue
        m = RE_COVER.match(line)
        if m:
            r["covers_sat"], r["covers_total"] = int(m.group(1)), int(m.group(2))
            continue
        m = RE_TIME.match(line)
        if m:
            r["time_s"] = float(m.group(1))
            continue
        m = RE_FAILED_CHECK.match(line)
        if m:
            r["failed_checks"].append({"msg": m.group(1).strip().strip('"')})
            continue
        m = RE_FILE.match(line)
        if m and r["failed_checks"]:
            r["failed_checks"][-1].update({"file": m.group(1), "line": int(m.group(2)), "in": m.group(3)})
            continue
        if line.startswith("VERIFICATION:- "):
            r["kani_status"] = line.split("- ", 1)[1].strip()
            continue
        if line.startswith("CBMC timed out"):
            r["timed_out"] = True
            continue
        m = RE_CBMC_STATUS.match(line)
        if m:
            r["cbmc_status"] = int(m.group(1))
            continue
        if line.startswith("CBMC failed"):
            r["cbmc_failed"] = True
            continue
        if line.startswith("Concrete playback unit test for"):
            r.setdefault("playback", [])
            in_playback = cur
            continue
        if in_playback == cur and "playback" in r:
            r["playback"].append(line)
    for r in res.values():
        r["verdict"] = classify(r)
    return res, compile_failed


def new_result(name):
    return {"harness": name, "kani_status": None, "failed_checks": [], "covers_sat": None,
            "covers_total": None, "checks_failed": None, "checks_total": None, "time_s": None,
            "timed_out": False, "cbmc_status": None, "cbmc_failed": False}


def classify(r):
    if r["timed_out"]:
        return "timeout"
    if r["cbmc_status"] is not None or (r["cbmc_failed"] and not r["failed_checks"]):
        return "error"  # OOM, crash, signal
    if r["kani_status"] is None:
        return "missing"
    # CBMC's --nan-check flags float operations that may yield NaN; Rust floats do not trap, so
    # these are not panics of the code under check and are not part of any property here.
    r["failed_checks"] = [c for c in r["failed_checks"] if not c["msg"].startswith("NaN on ")]
    fc = [c["msg"] for c in r["failed_checks"]]
    if r["kani_status"] == "FAILED" and not fc and r.get("nan_only") is None and not r["timed_out"] \
            and r["cbmc_status"] is None and not r["cbmc_failed"] and r["checks_failed"]:
        # only NaN checks failed
        if r["covers_total"] not in (None, 0) and r["covers_sat"] == r["covers_total"]:
            return "pass"
        return "vacuous"
    if any("unwinding assertion" in m for m in fc):
        return "unwind"
    if r["kani_status"] == "SUCCESSFUL":
        if r["covers_total"] is not None and r["covers_sat"] != r["covers_total"]:
            return "vacuous"
        if r["covers_total"] in (None, 0):
            return "vacuous"  # every harness must carry a reachability witness
        return "pass"
    if r["kani_status"] == "FAILED":
        if fc:
            return "fail"
        return "error"
    return "error"


def run_kani(filters, jobs, harness_timeout_s, mem_gb, exact=False, playback=False, overall_timeout=None, logname=None, cbmc_args=None):
    os.makedirs(WORK, exist_ok=True)
    cmd = kani_cmd(filters, jobs, harness_timeout_s, exact=exact, playback=playback, cbmc_args=cbmc_args)
    t0 = time.time()
    import signal, shutil, tempfile
    # solver scratch files (CBMC's smt2_dec_*, external-sat*.cnf) of killed runs would pile up in /tmp:
    # give every invocation a private TMPDIR under the work directory and remove it afterwards
    os.makedirs(os.path.join(WORK, "tmp"), exist_ok=True)
    tmpdir = tempfile.mkdtemp(prefix="run-", dir=os.path.join(WORK, "tmp"))
    env = base_env()
    env["TMPDIR"] = tmpdir
    proc = subprocess.Popen(cmd, cwd=REPO, env=env, stdout=subprocess.PIPE, stderr=subprocess.STDOUT,
                            text=True, errors="replace", preexec_fn=limit_mem(mem_gb))
    try:
        out, _ = proc.communicate(timeout=overall_timeout)
        rc = proc.returncode
    except subprocess.TimeoutExpired:
        try:
            os.killpg(proc.pid, signal.SIGKILL)
        except ProcessLookupError:
            pass
        out, _ = proc.communicate()
        rc = -9
    # a harness timeout kills cbmc but not an SMT solver child (z3/cvc5): reap the whole session
    try:
        os.killpg(proc.pid, signal.SIGKILL)
    except (ProcessLookupError, PermissionError):
        pass
    wall = time.time() - t0
    shutil.rmtree(tmpdir, ignore_errors=True)
    if logname:
        os.makedirs(os.path.join(WORK, "logs"), exist_ok=True)
        with open(os.path.join(WORK, "logs", logname), "w") as f:
            f.write(" ".join(cmd) + "\n" + out)
    res, compile_failed = parse_kani_output(out)
    return {"results": res, "compile_failed": compile_failed, "rc": rc, "wall_s": wall, "cmd": " ".join(cmd), "raw": out}


# --------------------------------------------------------------------------------------
# known findings
# --------------------------------------------------------------------------------------
def load_known():
    findings, fixed = [], []
    path = os.path.join(VERIF, "known_findings.txt")
    if not os.path.exists(path):
        return findings, fixed
    for line in open(path):
        line = line.strip()
        if not line or line.startswith("#"):
            continue
        if line.startswith("finding:"):
            m = re.match(r'finding:\s+property=(\S+)\s+harness=(\S+)\s+check="(.*?)"\s*(.*)$', line)
            if m:
                findings.append({"property": m.group(1), "harness": m.group(2), "check": m.group(3), "what": m.group(4)})
        elif line.startswith("fixed:"):
            fixed.append(line)
    return findings, fixed


def match_known(pid, harness, msg, findings):
    for f in findings:
        if f["property"] == pid and harness.endswith(f["harness"]) and f["check"] == msg:
            return f
    return None


# --------------------------------------------------------------------------------------
# replay
# --------------------------------------------------------------------------------------
def sanitize(name):
    return re.sub(r"[^A-Za-z0-9_]+", "_", name)


HOOK_OF_MODULE = {
    "ff::accumulator": "accumulator", "protocol::context::batcher": "batcher", "helpers::buffers": "buffers",
    "helpers::buffers::circular": "circular", "protocol::dp": "dp", "protocol::context::dzkp_field": "dzkp_field",
    "protocol::context::dzkp_validator": "dzkp_validator", "protocol::context::validator": "mac_validator",
    "helpers::buffers::ordering_sender": "ordering_sender", "protocol::prss": "prss", "query::state": "query_state",
    "helpers::gateway::send": "send", "helpers::transport::stream::input": "streams",
    "secret_sharing::vector::transpose": "transpose", "helpers::buffers::unordered_receiver": "unordered_receiver",
    "protocol::ipa_prf::oprf_padding::distributions": "distributions",
    "": "root",
}


def hook_and_relpath(harness):
    """'a::b::verif_kani::x::y' -> (hook file name, 'x::y')"""
    mod, _, rel = harness.partition("verif_kani::")
    mod = mod.rstrip(":")
    return HOOK_OF_MODULE.get(mod), rel


def extract_playback_tests(lines, harness):
    """Turn Kani's printed unit test into one that names the harness relative to the hook's replay slot."""
    text = "\n".join(lines)
    blocks = re.findall(r"```\s*\n(.*?)```", text, re.S)
    # keep the tests generated for failed checks, not those for satisfied cover! statements
    keep = [b for b in blocks if "Check for `cover`" not in b]
    body = "\n".join(keep if keep else blocks)
    short = harness.split("::")[-1]
    _hook, rel = hook_and_relpath(harness)
    body = re.sub(r"kani::concrete_playback_run\(concrete_vals,\s*%s\)" % re.escape(short),
                  "kani::concrete_playback_run(concrete_vals, super::%s)" % rel, body)
    return body


def solver_rerun(replay_path):
    harness = None
    for line in open(replay_path):
        m = re.match(r"// harness: (\S+)", line)
        if m:
            harness = m.group(1)
    if not harness:
        return "error", "no harness named in replay file"
    r = run_kani([harness], 1, 2700, 48, exact=True, logname="solver-rerun.log")
    hr = r["results"].get(harness)
    if hr and hr["verdict"] == "fail":
        return "reproduced", r["raw"][-3000:]
    if hr and hr["verdict"] == "pass":
        return "not-reproduced", r["raw"][-3000:]
    return "error", r["raw"][-3000:]


def native_replay(replay_path, timeout=3600):
    """Run the concrete-playback test natively (dev profile, which is what Kani models).
    The replay file names its hook in a '// hook: <name>' line; it is placed in that hook's slot."""
    if open(replay_path).readline().startswith("// kind: solver-rerun"):
        # already decided twice by the solver when the file was written; not executed natively
        return "reproduced", "solver-rerun replay file (no concrete test available from Kani)"
    env = base_env()
    hook = "root"
    for line in open(replay_path):
        m = re.match(r"// hook: (\S+)", line)
        if m:
            hook = m.group(1)
            break
    slots = os.path.join(WORK, "replay_slots_%d" % os.getpid())
    shutil.rmtree(slots, ignore_errors=True)
    shutil.copytree(os.path.join(VERIF, "replays", "slots"), slots)
    shutil.copyfile(replay_path, os.path.join(slots, hook + ".rs"))
    env["IPA_VERIF_REPLAY_DIR"] = slots
    env["CARGO_TARGET_DIR"] = PLAYBACK_TARGET
    cmd = ["cargo", "kani", "playback", "-Z", "concrete-playback", "-Z", "stubbing", "-p", "ipa-core", "--lib",
           "--features", FEATURES, "--", "verif_kani::replay_here", "--test-threads", "1"]
    try:
        p = subprocess.run(cmd, cwd=REPO, env=env, stdout=subprocess.PIPE, stderr=subprocess.STDOUT, text=True,
                           errors="replace", timeout=timeout)
        out = p.stdout
    finally:
        shutil.rmtree(slots, ignore_errors=True)
    ran = re.search(r"test result: (ok|FAILED)\. (\d+) passed; (\d+) failed", out)
    if not ran:
        return "error", out
    if int(ran.group(3)) > 0:
        return "reproduced", out
    if int(ran.group(2)) > 0:
        return "not-reproduced", out
    return "error", out


def replay_file(pid, path):
    if open(path).readline().startswith("// kind: solver-rerun"):
        status, out = solver_rerun(path)
    else:
        status, out = native_replay(path)
    sys.stdout.write(out[-4000:])
    if status == "reproduced":
        log(f"VIOLATION property={pid} replay={path}")
        return 1
    if status == "not-reproduced":
        log(f"replay {path}: test passes natively (no violation reproduced)")
        return 0
    log(f"replay {path}: could not run")
    return 2


def get_counterexample(pid, harness, mem_gb, harness_timeout_s):
    """Re-run one failing harness with concrete playback; write the replay file."""
    # trace generation is slower than the plain verdict: allow three times the harness timeout
    # (and kani-driver needs a lot of memory to parse CBMC's JSON trace of large harnesses)
    r = run_kani([harness], 1, max(3 * harness_timeout_s, 900), max(mem_gb, 48), exact=True, playback=True,
                 logname=f"{pid}-playback-{sanitize(harness)}.log", cbmc_args=props.PROPS[pid].get("cbmc_args"))
    hr = r["results"].get(harness)
    if not hr or (hr.get("verdict") != "fail" and "playback" not in hr):
        # the playback run itself died (kani-driver runs out of memory parsing very large traces):
        # decide the harness a second time without trace generation
        r2 = run_kani([harness], 1, max(3 * harness_timeout_s, 900), max(mem_gb, 48), exact=True,
                      logname=f"{pid}-recheck-{sanitize(harness)}.log", cbmc_args=props.PROPS[pid].get("cbmc_args"))
        hr = r2["results"].get(harness)
    allow = any(harness.endswith(x) for x in props.PROPS[pid].get("solver_rerun_ok", []))
    if hr and "playback" not in hr and hr.get("verdict") == "fail" and not allow:
        # no concrete test and the harness is not on the property's short list of harnesses whose
        # counterexamples are known to be too large for Kani's playback: do NOT report a violation
        return None
    if hr and "playback" not in hr and hr.get("verdict") == "fail":
        # Kani confirmed the failure a second time but its concrete-playback feature emitted no unit
        # test (a Kani limitation seen with large transmuted symbolic arrays).  Record a solver-rerun
        # replay file: `./check <ID> --replay <file>` re-decides exactly this harness.
        d = os.path.join(VERIF, "replays", pid)
        os.makedirs(d, exist_ok=True)
        path = os.path.join(d, sanitize(harness.split("verif_kani::")[-1]) + ".solver-rerun.rs")
        with open(path, "w") as f:
            f.write("// kind: solver-rerun\n// harness: %s\n" % harness)
            f.write("// failed checks (decided twice by CBMC, no concrete test emitted by Kani): %s\n"
                    % [c["msg"] for c in hr["failed_checks"]])
        return path
    if not hr or "playback" not in hr:
        return None
    body = extract_playback_tests(hr["playback"], harness)
    d = os.path.join(VERIF, "replays", pid)
    os.makedirs(d, exist_ok=True)
    path = os.path.join(d, sanitize(harness.split("verif_kani::")[-1]) + ".rs")
    with open(path, "w") as f:
        f.write("// concrete counterexample produced by CBMC for harness %s\n" % harness)
        f.write("// hook: %s\n" % (hook_and_relpath(harness)[0] or "root"))
        f.write("// replay: ./check %s --replay %s\n" % (pid, path))
        f.write(body)
    return path


# --------------------------------------------------------------------------------------
# property run
# --------------------------------------------------------------------------------------
def harness_source_info(name):
    """unwind bound etc. come from the Kani metadata written by the compiler."""
    return {}


def collect_metadata():
    """Read kani-metadata.json files (unwind values, stubs) of the most recent build."""
    d = os.path.join(TARGET, "kani", "x86_64-unknown-linux-gnu", "debug", "build", "ipa-core")
    meta = {}
    try:
        dirs = sorted((os.path.join(d, e) for e in os.listdir(d)), key=os.path.getmtime)
    except FileNotFoundError:
        return meta
    for bd in dirs:
        out = os.path.join(bd, "out")
        if not os.path.isdir(out):
            continue
        for f in os.listdir(out):
            if f.endswith(".kani-metadata.json"):
                try:
                    m = json.load(open(os.path.join(out, f)))
                except Exception:
                    continue
                for h in m.get("proof_harnesses", []):
                    a = h.get("attributes", {})
                    meta[h["pretty_name"]] = {
                        "unwind": a.get("unwind_value"),
                        "stubs": [s["original"].replace(" ", "") for s in a.get("stubs", [])],
                        "file": h.get("original_file"),
                    }
    return meta


def run_property(pid, tier, seed, jobs, only=None, write_evidence=True):
    P = props.PROPS[pid]
    t0 = time.time()
    clean_old_builds()
    tierconf = P.get("tiers", {}).get(tier, {})
    harness_timeout = tierconf.get("harness_timeout_s", 300 if tier == "quick" else 1800)
    mem_gb = tierconf.get("mem_gb", 24 if tier == "quick" else 40)
    jobs = min(jobs, tierconf.get("jobs", jobs))
    num = pid[1:]
    filters = [f"::q{num}_"]
    if tier == "thorough":
        filters.append(f"::t{num}_")
    if only:
        filters = [only]
    log(f"[{pid}] tier={tier} filters={filters} jobs={jobs} harness-timeout={harness_timeout}s")
    run = run_kani(filters, jobs, harness_timeout, mem_gb, logname=f"{pid}-{tier}.log", cbmc_args=P.get("cbmc_args"))
    results = run["results"]
    meta = collect_metadata()
    smt = smt_run.run_for(pid, tier) if not only else {"queries": []}

    findings, fixed = load_known()
    exit_code = 0
    violations = 0
    known_hits = []
    inconclusive = []
    samples = []

    if run["compile_failed"] or not results:
        log(f"[{pid}] build failed or no harness ran (rc={run['rc']}); see {WORK}/logs/{pid}-{tier}.log")
        sys.stdout.write(run["raw"][-6000:])
        inconclusive.append("build")
        exit_code = 2

    for name in sorted(results):
        r = results[name]
        # "must panic" harnesses: the code under check is REQUIRED to panic (documented, loud rejection);
        # the listed panic messages are expected, anything else that fails (in particular the
        # harness's own "MUST NOT RETURN" assertion) is a violation; at least one expected panic
        # must have been reached, otherwise the harness is vacuous.
        exp = [rx for suffix, rxs in P.get("expected_panics", {}).items() if name.endswith(suffix) for rx in rxs]
        if exp and r["verdict"] == "fail":
            hit = [c for c in r["failed_checks"] if any(re.search(rx, c["msg"]) for rx in exp)]
            rest = [c for c in r["failed_checks"] if c not in hit]
            if hit and not rest:
                r["verdict"] = "pass" if (r["covers_total"] and r["covers_sat"] == r["covers_total"]) else "vacuous"
                r["expected_panics_hit"] = [c["msg"] for c in hit]
            else:
                r["failed_checks"] = rest if rest else r["failed_checks"]
        elif exp and r["verdict"] == "pass":
            r["verdict"] = "vacuous"  # the required panic was never reached
        v = r["verdict"]
        m = meta.get(name, {})
        sample = {"harness": name, "verdict": v, "solver_time_s": r["time_s"], "unwind": m.get("unwind"),
                  "covers": f'{r["covers_sat"]}/{r["covers_total"]}', "checks": r["checks_total"]}
        if v == "pass":
            pass
        elif v == "fail":
            unknown = []
            for c in r["failed_checks"]:
                k = match_known(pid, name, c["msg"], findings)
                if k:
                    known_hits.append((name, c["msg"], k))
                else:
                    unknown.append(c)
            sample["failed_checks"] = [c["msg"] for c in r["failed_checks"]]
            if unknown:
                log(f"[{pid}] {name}: FAILED checks {[c['msg'] for c in unknown]} - extracting counterexample")
                path = get_counterexample(pid, name, mem_gb, harness_timeout)
                extra_stubs = [x for x in m.get("stubs", []) if x not in DEFAULT_STUBS]
                if path is not None and extra_stubs:
                    # Kani's concrete playback does not apply stubs natively, so a harness that replaces
                    # environment functions by their contract cannot be re-executed outside the solver.
                    # The solver counterexample (input values in the replay file) is reported as is.
                    sample["replay"] = {"path": path, "native": "not applicable: harness stubs " + ", ".join(extra_stubs)}
                    violations += 1
                    log(f"VIOLATION property={pid} replay={path}")
                    log(f"  harness={name} failed={[c['msg'] for c in unknown]} (solver counterexample; native replay not applicable: stubbed {extra_stubs})")
                elif path is None:
                    log(f"[{pid}] {name}: could not obtain a concrete counterexample")
                    inconclusive.append(name)
                    sample["replay"] = "no counterexample"
                elif violations >= MAX_NATIVE_REPLAYS:
                    # enough reproduced violations to fail the check; further failing harnesses are
                    # listed with their solver counterexample but not re-executed natively
                    sample["replay"] = {"path": path, "native": "skipped (replay cap reached)"}
                    log(f"[{pid}] {name}: also FAILED {[c['msg'] for c in unknown]} (counterexample {path}; native replay skipped, cap reached)")
                else:
                    status, out = native_replay(path)
                    sample["replay"] = {"path": path, "native": status}
                    if status == "reproduced":
                        violations += 1
                        log(f"VIOLATION property={pid} replay={path}")
                        log(f"  harness={name} failed={[c['msg'] for c in unknown]}")
                    else:
                        log(f"[{pid}] {name}: counterexample did not reproduce natively ({status}); treating as machinery fault")
                        os.makedirs(os.path.join(WORK, "logs"), exist_ok=True)
                        open(os.path.join(WORK, "logs", f"{pid}-replay-{sanitize(name)}.log"), "w").write(out)
                        inconclusive.append(name)
        else:
            inconclusive.append(name)
            log(f"[{pid}] {name}: {v.upper()} (not a pass)")
        samples.append(sample)

    for q in smt.get("queries", []):
        samples.append(q)
        if q["verdict"] == "pass":
            continue
        if q["verdict"] == "fail":
            k = match_known(pid, q["harness"], q.get("check", ""), findings)
            if k:
                known_hits.append((q["harness"], q.get("check", ""), k))
            elif q.get("reproduced"):
                violations += 1
                log(f"VIOLATION property={pid} replay={q.get('replay')}")
            else:
                inconclusive.append(q["harness"])
        else:
            inconclusive.append(q["harness"])

    for (name, msg, k) in known_hits:
        log(f"KNOWN-FINDING: property={pid} {k['what']} [harness={name} check=\"{msg}\"]")

    if violations:
        exit_code = 1
    elif inconclusive:
        exit_code = 2

    wall = time.time() - t0
    if write_evidence:
        write_evidence_file(pid, tier, seed, P, run, results, smt, samples, known_hits, inconclusive, violations, wall, meta)
    npass = sum(1 for s in samples if s["verdict"] == "pass")
    log(f"[{pid}] {npass}/{len(samples)} obligations discharged, {violations} violation(s), "
        f"{len(known_hits)} known finding hit(s), {len(inconclusive)} inconclusive, wall {wall:.0f}s -> exit {exit_code}")
    return exit_code


def write_evidence_file(pid, tier, seed, P, run, results, smt, samples, known_hits, inconclusive, violations, wall, meta):
    decided = [s for s in samples if s["verdict"] in ("pass", "fail")]
    nontrivial = {s["harness"] for s in samples if s["verdict"] == "pass"}
    solver_time = sum((s.get("solver_time_s") or 0.0) for s in samples)
    stubs = sorted({st for s in samples for st in meta.get(s["harness"], {}).get("stubs", [])})
    ev = {
        "property_id": pid,
        "tier": tier,
        "seed": seed,
        "level": "model_checking",
        "coverage": {
            "evaluations": len(samples),
            "distinct_nontrivial": len(nontrivial),
            "rule": ("one evaluation = one solver obligation (a Kani/CBMC proof harness over symbolic inputs, or one SMT-LIB "
                     "query); an obligation counts as non-trivial only if the solver decided it AND all its kani::cover! "
                     "reachability witnesses (incl. the final cover!(true)) were satisfied, i.e. it is not vacuous; "
                     "distinctness is by harness name"),
            "samples": samples,
            "obligations": len(samples),
            "discharged": len(nontrivial),
            "undecided": sorted(set(inconclusive)),
            "known_findings_hit": [f"{n}: {m}" for (n, m, _k) in known_hits],
            "functions_encoded": P.get("functions_encoded", []),
            "bounds": P.get("bounds", ""),
            "outside_claim": P.get("outside_claim", ""),
            "stubs": stubs,
            "solver_time_s": round(solver_time, 3),
            "checker_cmd": run["cmd"],
            "trusted_base": ["Kani 0.68.0 (rustc MIR -> goto translation)", "CBMC 6.11.0", "CaDiCaL",
                             "z3 4.8.12 / cvc5 1.0 (SMT side queries, C08 only)",
                             "harness-side reference models in /verif/harness",
                             "the stubs listed under 'stubs'"],
            "exhaustive": False,
            "explanation": ("bounded model checking of the real ipa-core functions compiled from /repo's working tree; "
                            "each harness is decided for ALL values of its symbolic inputs within the stated bounds"),
        },
        "assumptions": P.get("assumptions", []),
        "wall_s": round(wall, 2),
        "violations": violations,
    }
    os.makedirs(os.path.join(VERIF, "evidence"), exist_ok=True)
    with open(os.path.join(VERIF, "evidence", f"{pid}.json"), "w") as f:
        json.dump(ev, f, indent=1)
        f.write("\n")
