// C03 (algebraic core) — hook in protocol/context/dzkp_field.rs.
// (1) the u/v lookup tables satisfy the gate identity  sum_i u_i*v_i == -1/2  <=>  e == ab ^ cd ^ f,
// (2) the bulk index packing puts the triple of intermediates of EVERY bit position into the right nibble.
use super::*;
use crate::ff::U128Conversions;
use crate::verif_kani::common::*;
use crate::verif_kani::c08_prime::{rd61, P61};

harness! {
    fn q03_proof_field_constants() {
        let two = Fp61BitPrime::ONE + Fp61BitPrime::ONE;
        assert!(rd61(Fp61BitPrime::INVERSE_OF_TWO * two) == 1, "1/2 * 2 == 1");
        assert!(rd61(Fp61BitPrime::MINUS_ONE_HALF + Fp61BitPrime::INVERSE_OF_TWO) == 0, "-1/2 + 1/2 == 0");
        assert!(rd61(Fp61BitPrime::MINUS_TWO + two) == 0, "-2 + 2 == 0");
        assert!(u128::from(rd61(Fp61BitPrime::INVERSE_OF_TWO)) < P61 && u128::from(rd61(Fp61BitPrime::MINUS_ONE_HALF)) < P61 && u128::from(rd61(Fp61BitPrime::MINUS_TWO)) < P61);
        kani::cover!(true);
    }
}

harness! {
    #[kani::unwind(10)]
    fn q03_gate_identity_over_tables() {
        // all 2^7 combinations of the six intermediates and a claimed e, as one query over the REAL tables
        let (a, b, c, d, f, e): (bool, bool, bool, bool, bool, bool) = (kani::any(), kani::any(), kani::any(), kani::any(), kani::any(), kani::any());
        let iu = usize::from(a) | usize::from(c) << 1 | usize::from(e) << 2;
        let iv = usize::from(b) | usize::from(d) << 1 | usize::from(f) << 2;
        let u = TABLE_U[iu];
        let v = TABLE_V[iv];
        let mut s = Fp61BitPrime::ZERO;
        let mut i = 0;
        while i < 4 {
            s += u[i] * v[i];
            i += 1;
        }
        let consistent = e == ((a & b) ^ (c & d) ^ f);
        assert!((rd61(s) == rd61(Fp61BitPrime::MINUS_ONE_HALF)) == consistent, "sum u_i v_i == -1/2 iff e == ab ^ cd ^ f");
        kani::cover!(consistent);
        kani::cover!(!consistent);
    }
}

harness! {
    fn q03_index_packing_all_positions() {
        // for ALL 2^384 inputs and a symbolic bit position p < 128
        let (b0, b1, b2): (u128, u128, u128) = (kani::any(), kani::any(), kani::any());
        let p: u32 = kani::any();
        kani::assume(p < 128);
        let y = bits_to_table_indices(b0, b1, b2);
        let word = y[(p % 4) as usize];
        let nibble = ((word >> (4 * (p / 4))) & 0xF) as u8;
        let expect = ((b0 >> p) & 1) as u8 | (((b1 >> p) & 1) as u8) << 1 | (((b2 >> p) & 1) as u8) << 2;
        assert!(nibble == expect, "nibble p/4 of word p%4 holds the index of position p");
        kani::cover!(expect == 7 && p == 127);
        kani::cover!(true);
    }
}

// native replay slot (cargo kani playback): the driver points IPA_VERIF_REPLAY_DIR at a directory
// holding one file per hook; the generated test calls the harness by its path relative to this module.
#[cfg(test)]
mod replay_here {
    use super::*;
    include!(concat!(env!("IPA_VERIF_REPLAY_DIR"), "/dzkp_field.rs"));
}
