// harness file ordering_sender (included under cfg(kani) from /repo)
