// C14 — hook in helpers/buffers/ordering_sender.rs: the waker bookkeeping of OrderingSender as
// data-structure steps (Kani has no threads: the interleavings themselves are NOT explored; what
// is decided is that every single step keeps the invariants the lost-wake-up argument relies on).
use super::*;
use crate::verif_kani::common::rawwake::{waker, woken};
use crate::verif_kani::common::*;

/// arbitrary shard with N parked wakers (N instantiated: 0, 1, 2), strictly increasing symbolic
/// indices, symbolic woken_at; waker k is parked at idx[k]
fn any_shard(n: usize) -> (WaitingShard, [usize; 2]) {
    let idx: [usize; 2] = kani::any();
    kani::assume(idx[0] < idx[1] && idx[1] < 1000);
    let mut wakers = VecDeque::new();
    if n >= 1 {
        wakers.push_back(WakerItem { i: idx[0], w: waker(0) });
    }
    if n >= 2 {
        wakers.push_back(WakerItem { i: idx[1], w: waker(1) });
    }
    let woken_at: usize = kani::any();
    kani::assume(woken_at < 1000);
    (WaitingShard { woken_at, wakers }, idx)
}

macro_rules! shard_steps {
    ($wake:ident, $add:ident, $n:expr) => {
        harness! {
            #[kani::unwind(5)]
            fn $wake() {
                let n: usize = $n;
                let (mut s, idx) = any_shard(n);
                let before = s.woken_at;
                let i: usize = kani::any();
                kani::assume(i < 1000);
                s.wake(i);
                assert!(s.woken_at >= before && s.woken_at >= i, "woken_at never moves backwards");
                assert!(s.woken_at == if before > i { before } else { i });
                let hit0 = n >= 1 && idx[0] == i;
                let hit1 = n >= 2 && idx[1] == i;
                assert!(woken(0) == usize::from(hit0), "exactly the waker parked for i is woken");
                assert!(woken(1) == usize::from(hit1));
                // stale entries below i are dropped only when i was found; later entries always stay
                let expect_len = if hit0 { n.wrapping_sub(1) } else if hit1 { 0 } else { n };
                assert!(s.wakers.len() == expect_len);
                if hit0 && n == 2 {
                    assert!(s.wakers[0].i == idx[1]);
                }
                kani::cover!(before > i);
                std::mem::forget(s);
            }
        }

        harness! {
            #[kani::unwind(5)]
            fn $add() {
                let n: usize = $n;
                let (mut s, idx) = any_shard(n);
                let woken_at = s.woken_at;
                let (current, i): (usize, usize) = (kani::any(), kani::any());
                kani::assume(current < 1000 && i < 1000);
                let wn = waker(2);
                match s.add(current, i, &wn) {
                    Err(()) => {
                        assert!(current < woken_at, "a waker is refused only when the caller's view is stale");
                        assert!(s.wakers.len() == n, "a refused waker leaves the shard unchanged");
                    }
                    Ok(()) => {
                        assert!(current >= woken_at, "a stale view is never accepted (it could sleep forever)");
                        assert!(s.woken_at == woken_at);
                        let replaced = (n >= 1 && idx[0] == i) || (n >= 2 && idx[1] == i);
                        assert!(s.wakers.len() == if replaced { n } else { n + 1 }, "one waker per index");
                        let mut k = 0;
                        let mut found = false;
                        while k < s.wakers.len() {
                            if k + 1 < s.wakers.len() {
                                assert!(s.wakers[k].i < s.wakers[k + 1].i, "wakers stay sorted by index");
                            }
                            if s.wakers[k].i == i {
                                s.wakers[k].w.wake_by_ref();
                                found = true;
                            }
                            k += 1;
                        }
                        assert!(found && woken(2) == 1 && woken(0) == 0 && woken(1) == 0, "the entry for i holds the waker just supplied");
                    }
                }
                kani::cover!(current >= woken_at);
                kani::cover!(current < woken_at);
                std::mem::forget(s);
            }
        }
    };
}
pub(crate) mod shard0 { use super::*; shard_steps!(q14_waiting_shard_wake_step, q14_waiting_shard_add_step, 0); }
pub(crate) mod shard1 { use super::*; shard_steps!(q14_waiting_shard_wake_step, q14_waiting_shard_add_step, 1); }
pub(crate) mod shard2 { use super::*; shard_steps!(q14_waiting_shard_wake_step, q14_waiting_shard_add_step, 2); }

harness! {
    #[kani::unwind(3)]
    fn q14_save_waker_keeps_the_latest() {
        // a blocked party that is polled again with a different waker must be woken through the NEW one
        let (wa, wb) = (waker(0), waker(1));
        let mut slot: Option<Waker> = if kani::any() { Some(wa.clone()) } else { None };
        let cx = Context::from_waker(&wb);
        State::save_waker(&mut slot, &cx);
        assert!(slot.is_some());
        State::wake(&mut slot);
        assert!(slot.is_none(), "a waker is used once");
        assert!(woken(1) == 1 && woken(0) == 0, "the most recently supplied waker is the one woken");
        kani::cover!(true);
        std::mem::forget(wa);
    }
}

// ---- State::{write, take, close}: back-pressure and wake-ups of the single-slot protocol ----------
// capacity 2 messages of 1 byte, read size 1; the buffer is brought to a symbolic fill level first.
fn state_with(fill: usize) -> State {
    let mut st = State::new(2, 1, 1);
    let mut k = 0;
    while k < 2 {
        if k < fill {
            st.buf.next().write(&[7u8][..]);
        }
        k += 1;
    }
    st
}

harness! {
    #[kani::unwind(6)]
    fn q14_state_write_step() {
        use crate::ff::Fp31;
        let fill: usize = kani::any();
        kani::assume(fill <= 2);
        let mut st = state_with(fill);
        let stream_parked: bool = kani::any();
        if stream_parked {
            st.stream_ready = Some(waker(1));
        }
        let w = waker(2);
        let cx = Context::from_waker(&w);
        let m: Fp31 = crate::verif_kani::c08_prime::mk31(5);
        match st.write(&m, &cx) {
            Poll::Pending => {
                assert!(fill == 2, "a writer blocks only when the buffer is full");
                assert!(st.buf.len() == 2, "a blocked write stores nothing");
                State::wake(&mut st.write_ready);
                assert!(woken(2) == 1, "the blocked writer's own waker is parked");
            }
            Poll::Ready(()) => {
                assert!(fill < 2 && st.buf.len() == fill + 1);
                assert!(woken(1) == usize::from(stream_parked), "a parked reader is woken as soon as data can be read");
                assert!(st.stream_ready.is_none());
            }
        }
        kani::cover!(fill == 2);
        kani::cover!(fill == 0 && stream_parked);
        std::mem::forget(st);
    }
}

harness! {
    #[kani::unwind(6)]
    fn q14_state_take_and_close_step() {
        let fill: usize = kani::any();
        kani::assume(fill <= 2);
        let mut st = state_with(fill);
        let writer_parked: bool = kani::any();
        if writer_parked {
            st.write_ready = Some(waker(0));
        }
        let w = waker(3);
        let cx = Context::from_waker(&w);
        match st.take(&cx) {
            Poll::Ready(v) => {
                assert!(fill >= 1 && v.len() == 1 && st.buf.len() == fill - 1, "one read block is taken");
                // a writer can only be parked while the buffer was full; freeing space must wake it
                assert!(woken(0) == usize::from(writer_parked && fill == 2), "a writer blocked on a full buffer is woken when space is freed");
                std::mem::forget(v);
            }
            Poll::Pending => {
                assert!(fill == 0, "the reader parks only when nothing can be read");
                assert!(woken(0) == 0);
                // closing wakes the parked reader so that it can observe the end of the stream
                st.close();
                assert!(woken(3) == 1 && st.is_closed(), "close wakes the parked reader");
            }
        }
        kani::cover!(fill == 2 && writer_parked);
        kani::cover!(fill == 0);
        std::mem::forget(st);
    }
}

// native replay slot (cargo kani playback): the driver points IPA_VERIF_REPLAY_DIR at a directory
// holding one file per hook; the generated test calls the harness by its path relative to this module.
#[cfg(test)]
mod replay_here {
    use super::*;
    include!(concat!(env!("IPA_VERIF_REPLAY_DIR"), "/ordering_sender.rs"));
}
