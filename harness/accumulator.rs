// C08 — hook in ff/accumulator.rs: the deferred-reduction accumulator, by an INDUCTIVE STEP.
// State invariant I(value, count): count < 64 and value <= count * (P-1)^2 + (P-1)
// (a previous reduction result or initial element plus `count` unreduced products).
// From an ARBITRARY state satisfying I, one multiply_accumulate with a symbolic first factor and the
// largest second factor (P-1, so the product reaches (P-1)^2 without a symbolic multiplier):
// no overflow, I holds again, and the represented field value advances by exactly x*y.
// I holds for new() / From<F>; take() reduces any u128 correctly (c08_prime::truncate harness).
// Together: accumulate-then-take equals the fold of plain field operations for sequences of any length.
use super::*;
use crate::ff::Fp61BitPrime;
use crate::verif_kani::common::*;
use crate::verif_kani::c08_prime::{mk61, rd61, red61, P61};

const M: u128 = (P61 - 1) * (P61 - 1);
type Acc = Accumulator<Fp61BitPrime, u128, 64>;
type AccArr = Accumulator<Fp61BitPrime, [u128; 2], 64>;

/// (value, count, bound) with bound = count*(P-1)^2 + (P-1) >= value
fn any_state() -> (u128, usize, u128) {
    let value: u128 = kani::any();
    let count: usize = kani::any();
    kani::assume(count < 64);
    let bound = (count as u128) * M + (P61 - 1);
    kani::assume(value <= bound);
    (value, count, bound)
}
/// the invariant after a step, without a second symbolic multiplication
fn invariant_after(new_value: u128, new_count: usize, old_count: usize, old_bound: u128) {
    if new_count == 0 {
        assert!(new_value <= P61 - 1, "after a reduction the accumulator holds one field element");
    } else {
        assert!(new_count == old_count + 1 && new_count < 64, "the reduce interval is respected");
        assert!(new_value <= old_bound + M, "the accumulator never exceeds count products plus one element");
    }
}

// (A) capacity argument: largest products, no overflow, invariant preserved.
harness! {
    fn q08_accumulator_scalar_step_capacity() {
        let (value, count, bound) = any_state();
        let mut acc = Acc { value, count, phantom_data: PhantomData };
        let x: u64 = kani::any();
        kani::assume(u128::from(x) < P61);
        MultiplyAccumulator::multiply_accumulate(&mut acc, mk61(x), mk61((P61 - 1) as u64)); // must not overflow
        invariant_after(acc.value, acc.count, count, bound);
        kani::cover!(count == 63 && x == (P61 - 1) as u64);
        kani::cover!(acc.count == 0);
        kani::cover!(true);
    }
}

harness! {
    #[kani::unwind(4)]
    fn q08_accumulator_array_step_capacity() {
        let (v0, count, bound) = any_state();
        let v1: u128 = kani::any();
        kani::assume(v1 <= bound);
        let mut acc = AccArr { value: [v0, v1], count, phantom_data: PhantomData };
        let x: [u64; 2] = kani::any();
        kani::assume(u128::from(x[0]) < P61 && u128::from(x[1]) < P61);
        let y = mk61((P61 - 1) as u64);
        MultiplyAccumulatorArray::multiply_accumulate(&mut acc, &[mk61(x[0]), mk61(x[1])], &[y, y]); // must not overflow
        let k: usize = kani::any();
        kani::assume(k < 2);
        invariant_after(acc.value[k], acc.count, count, bound);
        kani::cover!(count == 63 && x[0] == (P61 - 1) as u64);
        kani::cover!(acc.count == 0);
        kani::cover!(true);
    }
}

// (B) value argument: the represented field value advances by exactly x*y and take() returns it.
// The second factor is 2^60 (the product is a shift, so the harness needs no second multiplier).
harness! {
    fn q08_accumulator_scalar_step_value() {
        let (value, count, _bound) = any_state();
        let mut acc = Acc { value, count, phantom_data: PhantomData };
        let x: u64 = kani::any();
        kani::assume(u128::from(x) < P61);
        MultiplyAccumulator::multiply_accumulate(&mut acc, mk61(x), mk61(1u64 << 60));
        let expect = red61(value + (u128::from(x) << 60));
        assert!(red61(acc.value) == expect, "the represented value advances by x*y");
        let t = MultiplyAccumulator::take(acc);
        assert!(u128::from(rd61(t)) == expect, "take() returns the represented value");
        kani::cover!(count == 63);
        kani::cover!(true);
    }
}

harness! {
    #[kani::unwind(4)]
    fn q08_accumulator_array_step_value() {
        let (v0, count, bound) = any_state();
        let v1: u128 = kani::any();
        kani::assume(v1 <= bound);
        let mut acc = AccArr { value: [v0, v1], count, phantom_data: PhantomData };
        let x: [u64; 2] = kani::any();
        kani::assume(u128::from(x[0]) < P61 && u128::from(x[1]) < P61);
        let y = mk61(1u64 << 60);
        MultiplyAccumulatorArray::multiply_accumulate(&mut acc, &[mk61(x[0]), mk61(x[1])], &[y, y]);
        let k: usize = kani::any();
        kani::assume(k < 2);
        let old = if k == 0 { v0 } else { v1 };
        let expect = red61(old + (u128::from(x[k]) << 60));
        assert!(red61(acc.value[k]) == expect, "each lane advances by x*y");
        let t = MultiplyAccumulatorArray::take(acc);
        assert!(u128::from(rd61(t[k])) == expect, "take() returns the represented values");
        kani::cover!(count == 63);
        kani::cover!(true);
    }
}

harness! {
    fn q08_accumulator_base() {
        let a = <Acc as MultiplyAccumulator<Fp61BitPrime>>::new();
        assert!(a.value == 0 && a.count == 0);
        let b = <AccArr as MultiplyAccumulatorArray<Fp61BitPrime, 2>>::new();
        assert!(b.value[0] == 0 && b.value[1] == 0 && b.count == 0);
        let x: u64 = kani::any();
        kani::assume(u128::from(x) < P61);
        let c = Acc::from(mk61(x));
        assert!(c.value == u128::from(x) && c.count == 0);
        kani::cover!(true);
    }
}

// native replay slot (cargo kani playback): the driver points IPA_VERIF_REPLAY_DIR at a directory
// holding one file per hook; the generated test calls the harness by its path relative to this module.
#[cfg(test)]
mod replay_here {
    use super::*;
    include!(concat!(env!("IPA_VERIF_REPLAY_DIR"), "/accumulator.rs"));
}
