// Crate-root harness module (hook H1, `crate::verif_kani`).  Included under cfg(kani) only.

macro_rules! verif_file {
    ($name:ident) => {
        pub(crate) mod $name {
            include!(concat!(env!("IPA_VERIF_DIR"), "/harness/", stringify!($name), ".rs"));
        }
    };
}

verif_file!(common);
verif_file!(c08_prime);

// native replay of solver counterexamples (cargo kani playback); IPA_VERIF_REPLAY names the file.
#[cfg(test)]
mod replay {
    include!(env!("IPA_VERIF_REPLAY"));
}
verif_file!(c08_gf);
verif_file!(c08_ba);
verif_file!(c09_serde);
verif_file!(c10_report);
verif_file!(c08_derived);
verif_file!(c15_seq_join);
verif_file!(scratch);
