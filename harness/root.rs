// Crate-root harness module (hook H1, `crate::verif_kani`).  Included under cfg(kani) only.

macro_rules! verif_file {
    ($name:ident) => {
        pub(crate) mod $name {
            include!(concat!(env!("IPA_VERIF_DIR"), "/harness/", stringify!($name), ".rs"));
        }
    };
}

verif_file!(common);
verif_file!(c08_prime);

verif_file!(c08_gf);
verif_file!(c08_ba);
verif_file!(c09_serde);
verif_file!(c10_report);
verif_file!(c08_derived);
verif_file!(c15_seq_join);
verif_file!(scratch);

// native replay slot (cargo kani playback): the driver points IPA_VERIF_REPLAY_DIR at a directory
// holding one file per hook; the generated test calls the harness by its path relative to this module.
#[cfg(test)]
mod replay_here {
    use super::*;
    include!(concat!(env!("IPA_VERIF_REPLAY_DIR"), "/root.rs"));
}
