// C16 — hook H3: `crate::protocol::context::batcher::verif_kani` (Batcher is pub(super), `Ready` and
// `is_ready_for_validation` are private to the file).
//
// Decided: the synchronous bookkeeping that decides WHO validates a batch and WHEN: under a
// SYMBOLIC arrival order of all records, `Ready::Yes` is produced exactly once per batch, at the
// arrival that completes the batch, with the right index and the batch object built for that
// index; all earlier arrivals get `Ready::No`.  The validation closure is only invoked on the
// `Ready::Yes` arm, so "each batch is checked exactly once" follows.  Misuse is rejected loudly.
// NOT decided: the verdict fan-out through tokio::sync::watch (the Kani compiler ICEs on it).
use super::*;
use crate::verif_kani::common::*;

/// `watch::channel` drops its initial receiver, which wakes (non-existent) waiters through
/// tokio's Notify; nothing is ever parked in these harnesses, so waking is a no-op.
pub(crate) fn notify_waiters_nop(_n: &tokio::sync::Notify) {}

fn new_batcher<'a>(rpb: usize, total: usize) -> Batcher<'a, usize> {
    // the batch object is its own index, so a mixed-up batch is visible
    let total = match std::num::NonZeroUsize::new(total) {
        Some(t) => TotalRecords::Specified(t),
        None => {
            kani::assume(false);
            unreachable!()
        }
    };
    let m = Batcher::new(rpb, total, Box::new(|i: usize| i));
    match m.into_inner() {
        Ok(b) => b,
        Err(e) => {
            std::mem::forget(e);
            kani::assume(false);
            unreachable!()
        }
    }
}

macro_rules! arrival_orders {
    ($name:ident, $rpb:expr, $total:expr, $unw:literal, $pre:expr) => {
        harness! {
            #[kani::unwind($unw)]
            #[kani::stub(tokio::sync::Notify::notify_waiters, crate::protocol::context::batcher::verif_kani::notify_waiters_nop)]
            fn $name() {
                const RPB: usize = $rpb;
                const T: usize = $total;
                const NB: usize = (T + RPB - 1) / RPB;
                const PRECREATE: bool = $pre;
                let mut b = new_batcher(RPB, T);
                if PRECREATE {
                    // create every batch up front with a CONCRETE record id, so that batch creation
                    // (tokio watch channel, BitVec) is not executed under a symbolic batch offset
                    let _ = b.get_batch(RecordId::from(T - 1));
                }
                // symbolic permutation of the record ids 0..T
                let order: [usize; T] = kani::any();
                let mut seen = [false; T];
                let mut arrived = [0usize; NB];
                let mut yes = [0usize; NB];
                let mut i = 0;
                while i < T {
                    let r = order[i];
                    kani::assume(r < T && !seen[r]);
                    seen[r] = true;
                    let bi = r / RPB;
                    let size = if (bi + 1) * RPB <= T { RPB } else { T - bi * RPB };
                    arrived[bi] += 1;
                    match b.is_ready_for_validation(RecordId::from(r)) {
                        Ok(Ready::Yes { batch_index, batch }) => {
                            assert!(batch_index == bi, "the batch of the completing record");
                            assert!(batch.batch == bi, "the batch object built for that index");
                            assert!(arrived[bi] == size, "released only when every record of the batch has arrived");
                            assert!(yes[bi] == 0, "each batch is released for validation once");
                            yes[bi] += 1;
                            std::mem::forget(batch);
                        }
                        Ok(Ready::No(rx)) => {
                            assert!(arrived[bi] < size, "the completing arrival must trigger validation");
                            std::mem::forget(rx);
                        }
                        Err(e) => {
                            std::mem::forget(e);
                            assert!(false, "in-range records are never rejected");
                        }
                    }
                    i += 1;
                }
                let mut k = 0;
                while k < NB {
                    assert!(yes[k] == 1, "every batch (incl. the final partial one) was released");
                    k += 1;
                }
                assert!(b.is_empty(), "nothing is left behind");
                kani::cover!(order[0] == T - 1); // last record first: out-of-order batch completion
                std::mem::forget(b);
            }
        }
    };
}

arrival_orders!(x16_arrival_orders_rpb2_total3, 2, 3, 5, false);
arrival_orders!(x16_precreated_rpb2_total3, 2, 3, 5, true);
arrival_orders!(x16_precreated_rpb1_total2, 1, 2, 4, true);
arrival_orders!(x16_single_batch_rpb3_total3, 3, 3, 5, false);
arrival_orders!(x16_single_batch_rpb2_total2, 2, 2, 4, false);
arrival_orders!(x16_arrival_orders_rpb1_total2, 1, 2, 4, false);
arrival_orders!(x16_arrival_orders_rpb2_total2, 2, 2, 4, false);
arrival_orders!(x16_arrival_orders_rpb1_total3, 1, 3, 5, false);
arrival_orders!(x16_arrival_orders_rpb2_total4, 2, 4, 6, false);
arrival_orders!(x16_arrival_orders_rpb2_total5, 2, 5, 7, false);
arrival_orders!(x16_arrival_orders_rpb3_total5, 3, 5, 7, false);

// native replay slot (cargo kani playback): the driver points IPA_VERIF_REPLAY_DIR at a directory
// holding one file per hook; the generated test calls the harness by its path relative to this module.
#[cfg(test)]
mod replay_here {
    use super::*;
    include!(concat!(env!("IPA_VERIF_REPLAY_DIR"), "/batcher.rs"));
}
