// harness file batcher (included under cfg(kani) from /repo)
