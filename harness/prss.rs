// C06 (index-space part) — hook in protocol/prss/mod.rs: `crate::protocol::prss::verif_kani`.
// Values produced by PRSS are AES outputs and are NOT claimed; what is decided is that distinct
// (index, offset) pairs always reach the block cipher as distinct inputs and round-trip exactly.
use super::*;
use crate::verif_kani::common::*;

harness! {
    fn q06_index128_injective() {
        let (a, b): (u32, u32) = (kani::any(), kani::any());
        let (oa, ob): (usize, usize) = (kani::any(), kani::any());
        let x = PrssIndex128::new(PrssIndex::from(a), oa);
        let y = PrssIndex128::new(PrssIndex::from(b), ob);
        if let (Ok(x), Ok(y)) = (&x, &y) {
            let (cx, cy) = (u128::from(*x), u128::from(*y));
            assert!((cx == cy) == (a == b && oa == ob), "distinct (index, offset) <=> distinct cipher input");
            assert!(u128::from(u64::from(*x)) == cx && cx < (1u128 << 64));
            assert!((x == y) == (a == b && oa == ob));
            // a multi-block value of index a never aliases block 0 of any other index
            if oa != 0 && ob == 0 {
                assert!(cx != cy);
            }
            kani::cover!(a != b && oa != ob);
        }
        std::mem::forget(x);
        std::mem::forget(y);
        kani::cover!(true);
    }
}

harness! {
    fn q06_index128_offset_cap_and_inverse() {
        let a: u32 = kani::any();
        let o: usize = kani::any();
        match PrssIndex128::new(PrssIndex::from(a), o) {
            Ok(x) => {
                assert!(o <= (1usize << 11), "offsets beyond the documented cap are rejected");
                assert!(u32::from_le_bytes((u128::from(x) >> 32).to_le_bytes()[..4].try_into().unwrap()) == a);
                match PrssIndex128::try_from(u128::from(x)) {
                    Ok(y) => assert!(y == x, "TryFrom<u128> is the exact inverse of From<PrssIndex128>"),
                    Err(e) => {
                        std::mem::forget(e);
                        assert!(false, "a valid index must convert back");
                    }
                }
                kani::cover!(o == (1usize << 11) - 1);
            }
            Err(e) => {
                assert!(o >= (1usize << 11), "every offset below the cap is accepted");
                std::mem::forget(e);
            }
        }
        kani::cover!(true);
    }
}

harness! {
    fn q06_index128_try_from_total() {
        // every u128: Ok only for values that are images of a valid (index, offset) pair
        let v: u128 = kani::any();
        match PrssIndex128::try_from(v) {
            Ok(x) => {
                assert!(u128::from(x) == v);
                assert!(v < (1u128 << 64) && (v & 0xFFFF_FFFF) <= (1 << 11));
            }
            Err(e) => {
                assert!(v >= (1u128 << 64) || (v & 0xFFFF_FFFF) >= (1 << 11));
                std::mem::forget(e);
            }
        }
        kani::cover!(true);
    }
}

harness! {
    fn q06_prss_index_from_u128_in_range() {
        let v: u128 = kani::any();
        kani::assume(v <= u128::from(u32::MAX));
        let x = PrssIndex::from(v);
        assert!(x == PrssIndex::from(v as u32), "in-range indices are preserved");
        let y = PrssIndex128::new(x, 0);
        if let Ok(y) = &y {
            assert!(u128::from(*y) >> 32 == v);
        }
        std::mem::forget(y);
        kani::cover!(v == u128::from(u32::MAX));
    }
}

harness! {
    fn q06_prss_index_from_oversized_u128_mustpanic() {
        // an index that does not fit 32 bits must be refused loudly; silently wrapping it would make it
        // alias a small index (the same randomness drawn twice)
        let v: u128 = kani::any();
        kani::assume(v > u128::from(u32::MAX));
        kani::cover!(true);
        let x = PrssIndex::from(v);
        std::mem::forget(x);
        assert!(false, "MUST NOT RETURN: an oversized index was accepted");
    }
}

// C12 (dummy records) — lives in this hook because the padding generator takes the PRSS-backed
// sequential RNG, whose constructor is private to this module.
// Decided: `Paddable::add_padding_items` for hybrid reports makes exactly ONE draw per cardinality
// 1..=cap, appends `sample * cardinality` rows for it, returns the total, and every appended row has
// all-zero breakdown-key and value shares and a match key known only to the two generating helpers
// (the share seen by the excluded helper is zero).
// MEASURED: not decidable here — > 900 s at cap <= 2 and at most one draw per cardinality, with the
// harness-wide unwind at 8 and a per-loop bound of 65 for BA64::truncate_from (64 single-bit bitvec
// copies per dummy match key); unwind 66 everywhere: > 900 s as well.  Kept as a disabled experiment
// (x12_), C12_6 stays outside the claim.
// Environment: the block cipher behind the RNG is an arbitrary function (Generator::generate
// stubbed to kani::any()), the draw count comes from a stubbed sampler (symbolic, <= 2 per
// cardinality), cap <= 2.
pub(crate) mod c12_dummies {
    use super::*;
    use crate::ff::boolean_array::{BA3, BA8, BA64};
    use crate::helpers::Role;
    use crate::protocol::context::prss::InstrumentedSequentialSharedRandomness;
    use crate::protocol::ipa_prf::oprf_padding::insecure::{Error as PadError, OPRFPaddingDp};
    use crate::protocol::ipa_prf::oprf_padding::{AggregationPadding, OPRFPadding, Paddable, PaddingParameters};
    use crate::report::hybrid::IndistinguishableHybridReport;
    use crate::secret_sharing::replicated::ReplicatedSecretSharing;

    static mut PAD_SAMPLES: [u32; 2] = [0; 2];
    static mut PAD_CALLS: usize = 0;

    pub(crate) fn generate_stub<I: Into<PrssIndex128>>(_g: &crypto::Generator, _index: I) -> u128 {
        kani::any()
    }
    /// metrics bookkeeping (thread-local HashMap store) is outside every claim
    pub(crate) fn store_mut_nop<F: FnOnce(&mut ipa_metrics::MetricsStore) -> T, T>(f: F) -> T {
        std::mem::forget(f);
        unsafe { std::mem::MaybeUninit::<T>::uninit().assume_init() } // T = () at every call site reached
    }
    pub(crate) fn padding_new_stub(_e: f64, _d: f64, _s: u32) -> Result<OPRFPaddingDp, PadError> {
        Ok(unsafe { std::mem::zeroed::<OPRFPaddingDp>() })
    }
    pub(crate) fn padding_sample_stub<R: RngCore + CryptoRng>(_t: &OPRFPaddingDp, _rng: &mut R) -> u32 {
        unsafe {
            let i = PAD_CALLS;
            PAD_CALLS += 1;
            if i < 2 { PAD_SAMPLES[i] } else { 0 }
        }
    }

    type Row = IndistinguishableHybridReport<BA8, BA3>;

    harness! {
        #[kani::unwind(8)] // plus a per-loop bound of 65 for BA64::truncate_from (64 single-bit copies), see props.py
        #[kani::stub(crate::protocol::prss::crypto::Generator::generate, crate::protocol::prss::verif_kani::c12_dummies::generate_stub)]
        #[kani::stub(ipa_metrics::MetricsCurrentThreadContext::store_mut, crate::protocol::prss::verif_kani::c12_dummies::store_mut_nop)]
        #[kani::stub(crate::protocol::ipa_prf::oprf_padding::insecure::OPRFPaddingDp::new, crate::protocol::prss::verif_kani::c12_dummies::padding_new_stub)]
        #[kani::stub(crate::protocol::ipa_prf::oprf_padding::insecure::OPRFPaddingDp::sample, crate::protocol::prss::verif_kani::c12_dummies::padding_sample_stub)]
        fn x12_dummy_reports_per_cardinality() {
            let cap: u32 = kani::any();
            let s: [u32; 2] = kani::any();
            kani::assume(cap <= 2 && s[0] <= 1 && s[1] <= 1);
            unsafe {
                PAD_SAMPLES = s;
                PAD_CALLS = 0;
            }
            let left: bool = kani::any();
            let dir = if left { Direction::Left } else { Direction::Right };
            let gate = Gate::default();
            // never read: every use of the cipher goes through the stubbed `generate`
            let g: crypto::Generator = unsafe { std::mem::MaybeUninit::uninit().assume_init() };
            let mut rng = InstrumentedSequentialSharedRandomness::new(SequentialSharedRandomness::new(g), &gate, Role::H1);
            let params = PaddingParameters {
                aggregation_padding: AggregationPadding::NoAggPadding,
                oprf_padding: OPRFPadding::Parameters { oprf_epsilon: 1.0, oprf_delta: 1e-6, matchkey_cardinality_cap: cap, oprf_padding_sensitivity: 2 },
            };
            let mut rows: Vec<Row> = Vec::new();
            let r = <Row as Paddable>::add_padding_items::<Vec<Row>, 1>(dir, &mut rows, &params, &mut rng);
            let expect = (if cap >= 1 { s[0] } else { 0 }) + (if cap >= 2 { 2 * s[1] } else { 0 });
            match r {
                Ok(total) => {
                    assert!(total == expect, "returned total == sum over cardinalities of draw * cardinality");
                    assert!(rows.len() == expect as usize, "exactly that many dummy rows are appended");
                    assert!(unsafe { PAD_CALLS } == cap as usize, "one draw per cardinality 1..=cap");
                    let i: usize = kani::any();
                    if i < rows.len() {
                        let row = &rows[i];
                        let bk = unsafe { std::mem::transmute::<(BA8, BA8), [u8; 2]>((row.breakdown_key.left(), row.breakdown_key.right())) };
                        let v = unsafe { std::mem::transmute::<(BA3, BA3), [u8; 2]>((row.value.left(), row.value.right())) };
                        assert!(bk[0] == 0 && bk[1] == 0 && v[0] == 0 && v[1] == 0, "dummies contribute nothing to any bucket");
                        let hidden = if left { row.match_key.left() } else { row.match_key.right() };
                        let hb = unsafe { std::mem::transmute::<BA64, [u8; 8]>(hidden) };
                        assert!(u64::from_le_bytes(hb) == 0, "the excluded helper's side of the match key share is zero");
                    }
                    kani::cover!(cap == 2 && s[0] == 1 && s[1] == 1);
                    kani::cover!(cap == 1 && s[0] == 1);
                }
                Err(e) => {
                    std::mem::forget(e);
                    assert!(false, "padding generation does not fail for admissible parameters");
                }
            }
            std::mem::forget(rows);
            std::mem::forget(rng);
        }
    }
}

// native replay slot (cargo kani playback): the driver points IPA_VERIF_REPLAY_DIR at a directory
// holding one file per hook; the generated test calls the harness by its path relative to this module.
#[cfg(test)]
mod replay_here {
    use super::*;
    include!(concat!(env!("IPA_VERIF_REPLAY_DIR"), "/prss.rs"));
}
