// C06 (index-space part) — hook in protocol/prss/mod.rs: `crate::protocol::prss::verif_kani`.
// Values produced by PRSS are AES outputs and are NOT claimed; what is decided is that distinct
// (index, offset) pairs always reach the block cipher as distinct inputs and round-trip exactly.
use super::*;
use crate::verif_kani::common::*;

harness! {
    fn q06_index128_injective() {
        let (a, b): (u32, u32) = (kani::any(), kani::any());
        let (oa, ob): (usize, usize) = (kani::any(), kani::any());
        let x = PrssIndex128::new(PrssIndex::from(a), oa);
        let y = PrssIndex128::new(PrssIndex::from(b), ob);
        if let (Ok(x), Ok(y)) = (&x, &y) {
            let (cx, cy) = (u128::from(*x), u128::from(*y));
            assert!((cx == cy) == (a == b && oa == ob), "distinct (index, offset) <=> distinct cipher input");
            assert!(u128::from(u64::from(*x)) == cx && cx < (1u128 << 64));
            assert!((x == y) == (a == b && oa == ob));
            // a multi-block value of index a never aliases block 0 of any other index
            if oa != 0 && ob == 0 {
                assert!(cx != cy);
            }
            kani::cover!(a != b && oa != ob);
        }
        std::mem::forget(x);
        std::mem::forget(y);
        kani::cover!(true);
    }
}

harness! {
    fn q06_index128_offset_cap_and_inverse() {
        let a: u32 = kani::any();
        let o: usize = kani::any();
        match PrssIndex128::new(PrssIndex::from(a), o) {
            Ok(x) => {
                assert!(o <= (1usize << 11), "offsets beyond the documented cap are rejected");
                assert!(u32::from_le_bytes((u128::from(x) >> 32).to_le_bytes()[..4].try_into().unwrap()) == a);
                match PrssIndex128::try_from(u128::from(x)) {
                    Ok(y) => assert!(y == x, "TryFrom<u128> is the exact inverse of From<PrssIndex128>"),
                    Err(e) => {
                        std::mem::forget(e);
                        assert!(false, "a valid index must convert back");
                    }
                }
                kani::cover!(o == (1usize << 11) - 1);
            }
            Err(e) => {
                assert!(o >= (1usize << 11), "every offset below the cap is accepted");
                std::mem::forget(e);
            }
        }
        kani::cover!(true);
    }
}

harness! {
    fn q06_index128_try_from_total() {
        // every u128: Ok only for values that are images of a valid (index, offset) pair
        let v: u128 = kani::any();
        match PrssIndex128::try_from(v) {
            Ok(x) => {
                assert!(u128::from(x) == v);
                assert!(v < (1u128 << 64) && (v & 0xFFFF_FFFF) <= (1 << 11));
            }
            Err(e) => {
                assert!(v >= (1u128 << 64) || (v & 0xFFFF_FFFF) >= (1 << 11));
                std::mem::forget(e);
            }
        }
        kani::cover!(true);
    }
}

harness! {
    fn q06_prss_index_from_u128_in_range() {
        let v: u128 = kani::any();
        kani::assume(v <= u128::from(u32::MAX));
        let x = PrssIndex::from(v);
        assert!(x == PrssIndex::from(v as u32), "in-range indices are preserved");
        let y = PrssIndex128::new(x, 0);
        if let Ok(y) = &y {
            assert!(u128::from(*y) >> 32 == v);
        }
        std::mem::forget(y);
        kani::cover!(v == u128::from(u32::MAX));
    }
}

harness! {
    fn q06_prss_index_from_oversized_u128_mustpanic() {
        // an index that does not fit 32 bits must be refused loudly; silently wrapping it would make it
        // alias a small index (the same randomness drawn twice)
        let v: u128 = kani::any();
        kani::assume(v > u128::from(u32::MAX));
        kani::cover!(true);
        let x = PrssIndex::from(v);
        std::mem::forget(x);
        assert!(false, "MUST NOT RETURN: an oversized index was accepted");
    }
}

// native replay slot (cargo kani playback): the driver points IPA_VERIF_REPLAY_DIR at a directory
// holding one file per hook; the generated test calls the harness by its path relative to this module.
#[cfg(test)]
mod replay_here {
    use super::*;
    include!(concat!(env!("IPA_VERIF_REPLAY_DIR"), "/prss.rs"));
}
