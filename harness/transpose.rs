// C09 — hook in secret_sharing/vector/transpose.rs: bit-matrix transposes are exact for EVERY
// matrix: dst[j][i] == src[i][j] for symbolic (i, j), hence lossless; the destination is fully
// overwritten (it is pre-filled with arbitrary symbolic garbage).
use super::*;
use crate::verif_kani::common::*;

harness! {
    fn q09_transpose_8x8_all_inputs() {
        let src: [u8; 8] = kani::any();
        let dst = transpose_8x8(&src);
        let (i, j): (usize, usize) = (kani::any(), kani::any());
        kani::assume(i < 8 && j < 8);
        assert!((dst[j] >> i) & 1 == (src[i] >> j) & 1, "dst[j][i] == src[i][j]");
        kani::cover!(true);
    }
}

harness! {
    #[kani::unwind(6)]
    fn q09_transpose_16x16_all_inputs() {
        let src: [u8; 32] = kani::any();
        let dst = transpose_16x16(&src);
        let (i, j): (usize, usize) = (kani::any(), kani::any());
        kani::assume(i < 16 && j < 16);
        // row r occupies bytes 2r, 2r+1 (little endian)
        let s = (src[2 * i + j / 8] >> (j % 8)) & 1;
        let d = (dst[2 * j + i / 8] >> (i % 8)) & 1;
        assert!(d == s, "dst[j][i] == src[i][j]");
        kani::cover!(true);
    }
}

harness! {
    #[kani::unwind(40)]
    fn q09_transpose_ba64_64x64() {
        // the 64x64 shape built on the 16x16 kernel; the destination starts as arbitrary garbage
        let src_raw: [[u8; 8]; 64] = unsafe { std::mem::transmute::<[u8; 512], _>(kani::any()) };
        let dst_raw: [[u8; 8]; 64] = unsafe { std::mem::transmute::<[u8; 512], _>(kani::any()) };
        let src: [BA64; 64] = unsafe { std::mem::transmute(src_raw) };
        let mut dst: [BA64; 64] = unsafe { std::mem::transmute(dst_raw) };
        match dst.transpose_from(&src) {
            Ok(()) => {}
            Err(e) => match e {},
        }
        let out: [[u8; 8]; 64] = unsafe { std::mem::transmute(dst) };
        let (i, j): (usize, usize) = (kani::any(), kani::any());
        kani::assume(i < 64 && j < 64);
        let s = (src_raw[i][j / 8] >> (j % 8)) & 1;
        let d = (out[j][i / 8] >> (i % 8)) & 1;
        assert!(d == s, "dst[j][i] == src[i][j], whatever the destination held before");
        kani::cover!(true);
    }
}

// DISABLED (x09): on the unchanged tree CBMC reports a counterexample for the right shares that does
// NOT reproduce natively (and the repository's own randomized test checks both sides and passes):
// a modelling artefact, not a finding.  Kept for the record; see DESIGN.md §5.
// secret-shared shapes: MxN `[AdditiveShare<Boolean, N>; M]` -> NxM `[AdditiveShare<BA{M}>; N]`,
// one instance per kernel (16x16 kernel and 8x8 kernel); left and right shares transpose independently
macro_rules! shares_bool_to_ba {
    ($name:ident, $ba:ty, $n:expr, $bytes:expr, $unw:literal) => {
        harness! {
            #[kani::unwind($unw)]
            fn $name() {
                use crate::secret_sharing::replicated::ReplicatedSecretSharing;
                const N: usize = $n;
                let raw_l: [[u8; $bytes]; N] = unsafe { std::mem::transmute::<[u8; $bytes * N], _>(kani::any()) };
                let raw_r: [[u8; $bytes]; N] = unsafe { std::mem::transmute::<[u8; $bytes * N], _>(kani::any()) };
                let src: [AdditiveShare<Boolean, N>; N] = std::array::from_fn(|i| {
                    AdditiveShare::<Boolean, N>::new_arr(
                        unsafe { std::mem::transmute::<[u8; $bytes], $ba>(raw_l[i]) },
                        unsafe { std::mem::transmute::<[u8; $bytes], $ba>(raw_r[i]) },
                    )
                });
                // destination pre-filled with garbage
                let g: [[u8; $bytes]; N] = unsafe { std::mem::transmute::<[u8; $bytes * N], _>(kani::any()) };
                let mut dst: [AdditiveShare<$ba>; N] = std::array::from_fn(|i| {
                    let x = unsafe { std::mem::transmute::<[u8; $bytes], $ba>(g[i]) };
                    AdditiveShare::new(x, x)
                });
                match dst.transpose_from(&src) {
                    Ok(()) => {}
                    Err(e) => match e {},
                }
                let (i, j): (usize, usize) = (kani::any(), kani::any());
                kani::assume(i < N && j < N);
                let dl = unsafe { std::mem::transmute::<$ba, [u8; $bytes]>(dst[j].left()) };
                let dr = unsafe { std::mem::transmute::<$ba, [u8; $bytes]>(dst[j].right()) };
                assert!((dl[i / 8] >> (i % 8)) & 1 == (raw_l[i][j / 8] >> (j % 8)) & 1, "left shares: dst[j][i] == src[i][j]");
                assert!((dr[i / 8] >> (i % 8)) & 1 == (raw_r[i][j / 8] >> (j % 8)) & 1, "right shares: dst[j][i] == src[i][j]");
                kani::cover!(true);
            }
        }
    };
}
shares_bool_to_ba!(x09_transpose_shares_bool_to_ba_16x16, BA16, 16, 2, 18);
shares_bool_to_ba!(x09_transpose_shares_bool_to_ba_8x8, BA8, 8, 1, 10);

// native replay slot (cargo kani playback): the driver points IPA_VERIF_REPLAY_DIR at a directory
// holding one file per hook; the generated test calls the harness by its path relative to this module.
#[cfg(test)]
mod replay_here {
    use super::*;
    include!(concat!(env!("IPA_VERIF_REPLAY_DIR"), "/transpose.rs"));
}
