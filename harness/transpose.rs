// C09 — hook in secret_sharing/vector/transpose.rs: bit-matrix transposes are exact for EVERY
// matrix: dst[j][i] == src[i][j] for symbolic (i, j), hence lossless; the destination is fully
// overwritten (it is pre-filled with arbitrary symbolic garbage).
use super::*;
use crate::verif_kani::common::*;

harness! {
    fn q09_transpose_8x8_all_inputs() {
        let src: [u8; 8] = kani::any();
        let dst = transpose_8x8(&src);
        let (i, j): (usize, usize) = (kani::any(), kani::any());
        kani::assume(i < 8 && j < 8);
        assert!((dst[j] >> i) & 1 == (src[i] >> j) & 1, "dst[j][i] == src[i][j]");
        kani::cover!(true);
    }
}

harness! {
    #[kani::unwind(6)]
    fn q09_transpose_16x16_all_inputs() {
        let src: [u8; 32] = kani::any();
        let dst = transpose_16x16(&src);
        let (i, j): (usize, usize) = (kani::any(), kani::any());
        kani::assume(i < 16 && j < 16);
        // row r occupies bytes 2r, 2r+1 (little endian)
        let s = (src[2 * i + j / 8] >> (j % 8)) & 1;
        let d = (dst[2 * j + i / 8] >> (i % 8)) & 1;
        assert!(d == s, "dst[j][i] == src[i][j]");
        kani::cover!(true);
    }
}

harness! {
    #[kani::unwind(40)]
    fn q09_transpose_ba64_64x64() {
        // the 64x64 shape built on the 16x16 kernel; the destination starts as arbitrary garbage
        let src_raw: [[u8; 8]; 64] = unsafe { std::mem::transmute::<[u8; 512], _>(kani::any()) };
        let dst_raw: [[u8; 8]; 64] = unsafe { std::mem::transmute::<[u8; 512], _>(kani::any()) };
        let src: [BA64; 64] = unsafe { std::mem::transmute(src_raw) };
        let mut dst: [BA64; 64] = unsafe { std::mem::transmute(dst_raw) };
        match dst.transpose_from(&src) {
            Ok(()) => {}
            Err(e) => match e {},
        }
        let out: [[u8; 8]; 64] = unsafe { std::mem::transmute(dst) };
        let (i, j): (usize, usize) = (kani::any(), kani::any());
        kani::assume(i < 64 && j < 64);
        let s = (src_raw[i][j / 8] >> (j % 8)) & 1;
        let d = (out[j][i / 8] >> (i % 8)) & 1;
        assert!(d == s, "dst[j][i] == src[i][j], whatever the destination held before");
        kani::cover!(true);
    }
}

// native replay slot (cargo kani playback): the driver points IPA_VERIF_REPLAY_DIR at a directory
// holding one file per hook; the generated test calls the harness by its path relative to this module.
#[cfg(test)]
mod replay_here {
    use super::*;
    include!(concat!(env!("IPA_VERIF_REPLAY_DIR"), "/transpose.rs"));
}
