// C17 — hook in helpers/transport/stream/input.rs (`...::input::verif_kani`): byte-stream parsers,
// chunking independence and totality.
//
// Input = a scripted stream of `Bytes::from_static` views of one leaked SYMBOLIC buffer; the
// chunk boundaries are instantiated per harness (macro below), the bytes are symbolic, and the
// source additionally returns `Poll::Pending` at solver-chosen polls.  For each layout the items
// produced (records, or the error position) must equal the single-chunk parse computed by the
// ghost parser in the harness - hence they are equal across layouts.
use std::task::Waker;

use super::*;
use crate::verif_kani::common::*;

/// 2-byte record with a fallible decoding (first byte must be < 0x80).
#[derive(Clone, Copy, PartialEq, Eq, Debug)]
pub(crate) struct Rec2(pub [u8; 2]);
#[derive(Debug)]
pub(crate) struct BadRec;
impl std::fmt::Display for BadRec {
    fn fmt(&self, _f: &mut std::fmt::Formatter<'_>) -> std::fmt::Result {
        Ok(())
    }
}
impl std::error::Error for BadRec {}
impl Serializable for Rec2 {
    type Size = U2;
    type DeserializationError = BadRec;
    fn serialize(&self, buf: &mut GenericArray<u8, U2>) {
        buf[0] = self.0[0];
        buf[1] = self.0[1];
    }
    fn deserialize(buf: &GenericArray<u8, U2>) -> Result<Self, BadRec> {
        if buf[0] < 0x80 { Ok(Rec2([buf[0], buf[1]])) } else { Err(BadRec) }
    }
}

/// Scripted source: K chunks, then end of stream; returns Pending when the solver says so
/// (at most MAXP times, so every run is finite).
pub(crate) struct Script<const K: usize> {
    chunks: [Option<Bytes>; K],
    next: usize,
    pendings: usize,
}
const MAXP: usize = 2;
impl<const K: usize> Stream for Script<K> {
    type Item = Result<Bytes, BoxError>;
    fn poll_next(mut self: Pin<&mut Self>, cx: &mut Context<'_>) -> Poll<Option<Self::Item>> {
        if self.pendings < MAXP && kani::any() {
            self.pendings += 1;
            cx.waker().wake_by_ref();
            return Poll::Pending;
        }
        if self.next < K {
            let i = self.next;
            self.next += 1;
            Poll::Ready(Some(Ok(self.chunks[i].take().unwrap_or_default())))
        } else {
            Poll::Ready(None)
        }
    }
}

pub(crate) fn symbolic_buf<const N: usize>() -> &'static [u8; N] {
    Box::leak(Box::new(kani::any()))
}

macro_rules! records_layout {
    ($name:ident, $n:expr, $k:expr, [$($cut:expr),*], $unw:literal) => {
        harness! {
            #[kani::unwind($unw)]
            fn $name() {
                const N: usize = $n;
                const K: usize = $k;
                let cuts: [usize; K + 1] = [$($cut),*];
                let buf: &'static [u8; N] = symbolic_buf::<N>();
                let mut chunks: [Option<Bytes>; K] = std::array::from_fn(|_| None);
                let mut c = 0;
                while c < K {
                    chunks[c] = Some(Bytes::from_static(&buf[cuts[c]..cuts[c + 1]]));
                    c += 1;
                }
                let mut s = RecordsStream::<Rec2, _, Single>::new(Script::<K> { chunks, next: 0, pendings: 0 });
                let waker = Waker::noop();
                let mut cx = Context::from_waker(&waker);
                // ghost parse of the whole buffer
                let full = N / 2;
                let mut produced = 0usize;
                let mut done = false;
                let mut polls = 0;
                while polls < N / 2 + 2 + MAXP + K && !done {
                    polls += 1;
                    match Pin::new(&mut s).poll_next(&mut cx) {
                        Poll::Pending => {}
                        Poll::Ready(None) => {
                            assert!(produced == full && N % 2 == 0, "clean end only after every record, no trailing bytes");
                            done = true;
                        }
                        Poll::Ready(Some(Ok(r))) => {
                            assert!(produced < full, "no record beyond the encoded ones");
                            assert!(buf[2 * produced] < 0x80, "only decodable records are yielded");
                            assert!(r.0[0] == buf[2 * produced] && r.0[1] == buf[2 * produced + 1], "records in order, none lost or duplicated");
                            produced += 1;
                        }
                        Poll::Ready(Some(Err(e))) => {
                            // either record `produced` is not decodable, or the stream ended with a partial record
                            assert!((produced < full && buf[2 * produced] >= 0x80) || (produced == full && N % 2 == 1),
                                "an error only at the first undecodable record or for trailing partial data");
                            std::mem::forget(e);
                            done = true;
                        }
                    }
                }
                assert!(done, "the parser terminates");
                kani::cover!(produced == full);
                std::mem::forget(s);
            }
        }
    };
}

pub(crate) mod records {
    use super::*;
    // all 8 chunkings of a 4-byte stream, plus layouts with empty chunks and an odd length
    records_layout!(q17_rec_4_whole, 4, 1, [0, 4], 12);
    records_layout!(q17_rec_4_1_3, 4, 2, [0, 1, 4], 12);
    records_layout!(q17_rec_4_2_2, 4, 2, [0, 2, 4], 12);
    records_layout!(q17_rec_4_3_1, 4, 2, [0, 3, 4], 12);
    records_layout!(q17_rec_4_1_1_2, 4, 3, [0, 1, 2, 4], 12);
    records_layout!(q17_rec_4_1_2_1, 4, 3, [0, 1, 3, 4], 12);
    records_layout!(q17_rec_4_2_1_1, 4, 3, [0, 2, 3, 4], 12);
    records_layout!(q17_rec_4_bytewise, 4, 4, [0, 1, 2, 3, 4], 12);
    records_layout!(q17_rec_4_empty_chunks, 4, 4, [0, 0, 3, 3, 4], 12);
    records_layout!(q17_rec_5_2_3, 5, 2, [0, 2, 5], 12);
    records_layout!(q17_rec_5_bytewise, 5, 5, [0, 1, 2, 3, 4, 5], 12);
    records_layout!(q17_rec_0_empty, 0, 1, [0, 0], 12);
}

// ---- the cross-buffer read kernel on its own ----------------------------------------------
macro_rules! deque_layout {
    ($name:ident, $n:expr, $k:expr, [$($cut:expr),*], $unw:literal) => {
        harness! {
            #[kani::unwind($unw)]
            fn $name() {
                const N: usize = $n;
                const K: usize = $k;
                let cuts: [usize; K + 1] = [$($cut),*];
                let buf: &'static [u8; N] = symbolic_buf::<N>();
                let mut d = BufDeque::new();
                let mut c = 0;
                while c < K {
                    match d.extend(Some(Ok(Bytes::from_static(&buf[cuts[c]..cuts[c + 1]])))) {
                        ExtendResult::Ok => {}
                        _ => assert!(false),
                    }
                    c += 1;
                }
                // read the buffered bytes back as 2-byte records: same bytes, same order, for this layout
                let mut pos = 0;
                while pos + 2 <= N {
                    match d.read_bytes(2) {
                        Some(b) => {
                            assert!(b.len() == 2 && b[0] == buf[pos] && b[1] == buf[pos + 1], "cross-buffer read returns the next bytes in order");
                            std::mem::forget(b);
                        }
                        None => assert!(false, "enough bytes are buffered"),
                    }
                    pos += 2;
                }
                assert!(d.read_bytes(2).is_none(), "nothing is invented");
                assert!(d.read_bytes(0).is_none());
                assert!(d.buffered_size == N - pos);
                kani::cover!(true);
                std::mem::forget(d);
            }
        }
    };
}
pub(crate) mod deque {
    use super::*;
    deque_layout!(x17_deque_4_1_2_1, 4, 3, [0, 1, 3, 4], 5);
    deque_layout!(x17_deque_4_whole, 4, 1, [0, 4], 4);
}

// ---- BufferedBytesStream: re-chunking to a fixed buffer size ------------------------------------
harness! {
    #[kani::unwind(8)]
    fn x17_buffered_rechunking() {
        use super::super::BufferedBytesStream;
        use std::num::NonZeroUsize;
        // 5 symbolic bytes arriving as chunks of 2 and 3, re-chunked to 2: outputs 2, 2, 1 bytes, same bytes in order
        let buf: &'static [u8; 5] = symbolic_buf::<5>();
        let chunks: [Option<Bytes>; 2] = [Some(Bytes::from_static(&buf[0..2])), Some(Bytes::from_static(&buf[2..5]))];
        let mut s = BufferedBytesStream::new(Script::<2> { chunks, next: 0, pendings: 0 }, NonZeroUsize::new(2).unwrap());
        let waker = Waker::noop();
        let mut cx = Context::from_waker(&waker);
        let mut pos = 0usize;
        let mut done = false;
        let mut polls = 0;
        while polls < 7 && !done {
            polls += 1;
            match Pin::new(&mut s).poll_next(&mut cx) {
                Poll::Pending => {}
                Poll::Ready(None) => {
                    assert!(pos == 5, "nothing is lost");
                    done = true;
                }
                Poll::Ready(Some(Ok(b))) => {
                    let want = if 5 - pos >= 2 { 2 } else { 5 - pos };
                    assert!(b.len() == want, "every item has the buffer size, except the last");
                    let k: usize = kani::any();
                    kani::assume(k < want);
                    assert!(b[k] == buf[pos + k], "the bytes come out unchanged and in order");
                    pos += want;
                    std::mem::forget(b);
                }
                Poll::Ready(Some(Err(e))) => {
                    std::mem::forget(e);
                    assert!(false, "no error on a healthy stream");
                }
            }
        }
        assert!(done);
        kani::cover!(true);
        std::mem::forget(s);
    }
}

// native replay slot (cargo kani playback): the driver points IPA_VERIF_REPLAY_DIR at a directory
// holding one file per hook; the generated test calls the harness by its path relative to this module.
#[cfg(test)]
mod replay_here {
    use super::*;
    include!(concat!(env!("IPA_VERIF_REPLAY_DIR"), "/streams.rs"));
}
