// C09 — wire encodings: for EVERY byte string of the advertised length, `deserialize` accepts it
// iff it is canonical (integer < PRIME, zero padding bits, Boolean byte in {0,1}), and
// re-serialising the decoded value reproduces the byte string bit for bit.  Hence
// encode/decode are mutually inverse bijections between values and canonical strings.
use crate::ff::boolean::Boolean;
use crate::ff::boolean_array::{BA3, BA4, BA5, BA6, BA7, BA8, BA16, BA20, BA32, BA64, BA96, BA112, BA144, BA256};
use crate::ff::{Fp31, Fp32BitPrime, Fp61BitPrime, Gf2, Gf3Bit, Gf8Bit, Gf9Bit, Gf20Bit, Gf32Bit, Gf40Bit, Serializable};
use crate::helpers::hashing::Hash;
use crate::protocol::prss::Seed;
use crate::report::hybrid::UniqueTag;
use crate::secret_sharing::replicated::semi_honest::AdditiveShare;
use crate::secret_sharing::StdArray;
use crate::verif_kani::common::*;
use typenum::Unsigned;

pub(crate) fn le32(b: &[u8]) -> u32 {
    u32::from_le_bytes([b[0], b[1], b[2], b[3]])
}
pub(crate) fn le64(b: &[u8]) -> u64 {
    u64::from_le_bytes([b[0], b[1], b[2], b[3], b[4], b[5], b[6], b[7]])
}
pub(crate) const P32: u32 = 4_294_967_291;
pub(crate) const P61: u64 = 2_305_843_009_213_693_951;

/// `serde_check!(harness_name, Type, N bytes, unwind, |b| canonical(b))`
macro_rules! serde_check {
    ($name:ident, $t:ty, $n:expr, $unw:literal, |$b:ident| $canon:expr) => {
        harness! {
            #[kani::unwind($unw)]
            fn $name() {
                let bytes: [u8; $n] = kani::any();
                let canon: bool = {
                    let $b = &bytes;
                    $canon
                };
                assert!(<<$t as Serializable>::Size as Unsigned>::USIZE == $n, "advertised length");
                let i: usize = kani::any();
                kani::assume(i < $n);
                match <$t as Serializable>::deserialize(ga!(bytes)) {
                    Ok(x) => {
                        assert!(canon, "only canonical byte strings are accepted");
                        let mut out = [0xA5u8; $n];
                        x.serialize(ga_mut!(out));
                        assert!(out[i] == bytes[i], "re-encoding reproduces the byte string");
                        std::mem::forget(x);
                        kani::cover!(true);
                    }
                    Err(e) => {
                        assert!(!canon, "every canonical byte string is accepted");
                        std::mem::forget(e);
                    }
                }
                kani::cover!(canon);
            }
        }
    };
}

pub(crate) mod scalar {
    use super::*;
    serde_check!(q09_fp31, Fp31, 1, 3, |b| b[0] < 31);
    serde_check!(q09_fp32, Fp32BitPrime, 4, 3, |b| le32(&b[..]) < P32);
    serde_check!(q09_fp61, Fp61BitPrime, 8, 3, |b| le64(&b[..]) < P61);
    serde_check!(q09_boolean, Boolean, 1, 3, |b| b[0] <= 1);
    serde_check!(q09_gf2, Gf2, 1, 10, |b| b[0] < 2);
    serde_check!(q09_gf3, Gf3Bit, 1, 10, |b| b[0] < 8);
    serde_check!(q09_gf8, Gf8Bit, 1, 10, |b| true);
    serde_check!(q09_gf9, Gf9Bit, 2, 18, |b| b[1] < 2);
    serde_check!(q09_gf20, Gf20Bit, 3, 26, |b| b[2] < 16);
    serde_check!(q09_gf32, Gf32Bit, 4, 10, |b| true);
    serde_check!(q09_gf40, Gf40Bit, 5, 10, |b| true);
    serde_check!(q09_ba3, BA3, 1, 10, |b| b[0] < 8);
    serde_check!(q09_ba4, BA4, 1, 10, |b| b[0] < 16);
    serde_check!(q09_ba5, BA5, 1, 10, |b| b[0] < 32);
    serde_check!(q09_ba6, BA6, 1, 10, |b| b[0] < 64);
    serde_check!(q09_ba7, BA7, 1, 10, |b| b[0] < 128);
    serde_check!(q09_ba8, BA8, 1, 10, |b| true);
    serde_check!(q09_ba16, BA16, 2, 10, |b| true);
    serde_check!(q09_ba20, BA20, 3, 26, |b| b[2] < 16);
    serde_check!(q09_ba32, BA32, 4, 10, |b| true);
    serde_check!(q09_ba64, BA64, 8, 10, |b| true);
    serde_check!(q09_ba96, BA96, 12, 10, |b| true);
    serde_check!(q09_ba112, BA112, 14, 10, |b| true);
    serde_check!(q09_ba144, BA144, 18, 10, |b| true);
    serde_check!(q09_ba256, BA256, 32, 10, |b| true);
    serde_check!(q09_unique_tag, UniqueTag, 16, 3, |b| true);
    serde_check!(q09_seed, Seed, 32, 3, |b| true);
    serde_check!(q09_seed_pair, (Seed, Seed), 64, 3, |b| true);
    serde_check!(q09_hash, Hash, 32, 3, |b| true);
}

pub(crate) mod shares {
    use super::*;
    serde_check!(q09_share_fp31, AdditiveShare<Fp31>, 2, 3, |b| b[0] < 31 && b[1] < 31);
    serde_check!(q09_share_fp32, AdditiveShare<Fp32BitPrime>, 8, 3, |b| le32(&b[0..4]) < P32 && le32(&b[4..8]) < P32);
    serde_check!(q09_share_fp61, AdditiveShare<Fp61BitPrime>, 16, 3, |b| le64(&b[0..8]) < P61 && le64(&b[8..16]) < P61);
    serde_check!(q09_share_boolean, AdditiveShare<Boolean>, 2, 3, |b| b[0] <= 1 && b[1] <= 1);
    serde_check!(q09_share_ba3, AdditiveShare<BA3>, 2, 10, |b| b[0] < 8 && b[1] < 8);
    serde_check!(q09_share_ba8, AdditiveShare<BA8>, 2, 10, |b| true);
    serde_check!(q09_share_ba20, AdditiveShare<BA20>, 6, 26, |b| b[2] < 16 && b[5] < 16);
    serde_check!(q09_share_ba64, AdditiveShare<BA64>, 16, 10, |b| true);
    serde_check!(q09_share_gf9, AdditiveShare<Gf9Bit>, 4, 18, |b| b[1] < 2 && b[3] < 2);
    serde_check!(q09_share_gf32, AdditiveShare<Gf32Bit>, 8, 10, |b| true);
}

pub(crate) mod arrays {
    use super::*;
    serde_check!(q09_stdarray1_fp32, StdArray<Fp32BitPrime, 1>, 4, 3, |b| le32(&b[..]) < P32);
    serde_check!(q09_stdarray1_ba5, StdArray<BA5, 1>, 1, 10, |b| b[0] < 32);
    harness! {
        #[kani::unwind(34)]
        fn q09_stdarray32_fp32() {
            // 32 x Fp32BitPrime = 128 bytes: accepted iff every 4-byte lane is < PRIME
            let bytes: [u8; 128] = kani::any();
            let k: usize = kani::any();
            kani::assume(k < 32);
            let i: usize = kani::any();
            kani::assume(i < 128);
            match <StdArray<Fp32BitPrime, 32> as Serializable>::deserialize(ga!(bytes)) {
                Ok(x) => {
                    assert!(le32(&bytes[4 * k..4 * k + 4]) < P32, "every lane canonical (lane k symbolic)");
                    let mut out = [0xA5u8; 128];
                    x.serialize(ga_mut!(out));
                    assert!(out[i] == bytes[i]);
                    kani::cover!(true);
                }
                Err(e) => {
                    std::mem::forget(e);
                    kani::cover!(true);
                }
            }
        }
    }
    harness! {
        #[kani::unwind(34)]
        fn q09_stdarray32_fp32_rejects() {
            // if any (symbolic) lane is out of range the whole array is rejected
            let bytes: [u8; 128] = kani::any();
            let k: usize = kani::any();
            kani::assume(k < 32);
            kani::assume(le32(&bytes[4 * k..4 * k + 4]) >= P32);
            match <StdArray<Fp32BitPrime, 32> as Serializable>::deserialize(ga!(bytes)) {
                Ok(_x) => assert!(false, "an out-of-range lane must be rejected"),
                Err(e) => std::mem::forget(e),
            }
            kani::cover!(true);
        }
    }

    // [Fp61BitPrime; 15] "ProofDiff" message (120 bytes): lane-wise canonical, lossless
    harness! {
        #[kani::unwind(18)]
        fn x09_proof_diff() {
            type ProofDiff = [Fp61BitPrime; 15];
            let bytes: [u8; 120] = kani::any();
            let k: usize = kani::any();
            kani::assume(k < 15);
            let i: usize = kani::any();
            kani::assume(i < 120);
            assert!(<<ProofDiff as Serializable>::Size as Unsigned>::USIZE == 120);
            match <ProofDiff as Serializable>::deserialize(ga!(bytes)) {
                Ok(x) => {
                    assert!(le64(&bytes[8 * k..8 * k + 8]) < P61, "every lane canonical (lane k symbolic)");
                    let mut out = [0xA5u8; 120];
                    x.serialize(ga_mut!(out));
                    assert!(out[i] == bytes[i], "re-encoding reproduces every byte");
                    kani::cover!(true);
                }
                Err(e) => {
                    std::mem::forget(e);
                    kani::cover!(true);
                }
            }
        }
    }

    harness! {
        #[kani::unwind(18)]
        fn q09_proof_diff_serialize() {
            // encoding side of the 15-element proof message: every lane is written, little endian, in order
            type ProofDiff = [Fp61BitPrime; 15];
            let raw: [u64; 15] = kani::any();
            let k: usize = kani::any();
            kani::assume(k < 15);
            kani::assume(raw[k] < P61);
            let v: ProofDiff = unsafe { std::mem::transmute::<[u64; 15], ProofDiff>(raw) };
            let mut out = [0xA5u8; 120];
            v.serialize(ga_mut!(out));
            let j: usize = kani::any();
            kani::assume(j < 8);
            assert!(out[8 * k + j] == raw[k].to_le_bytes()[j], "lane k (symbolic) is encoded at offset 8k");
            kani::cover!(k == 14);
            kani::cover!(true);
        }
    }

    harness! {
        #[kani::unwind(5)]
        fn q09_query_result_byte_layout() {
            // result returned to the report collector: concatenation of the element encodings, in order
            use crate::query::ProtocolResult;
            let raw: [u32; 3] = kani::any();
            let k: usize = kani::any();
            kani::assume(k < 3 && raw[k] < P32);
            let v: Vec<Fp32BitPrime> = vec![
                unsafe { std::mem::transmute::<u32, Fp32BitPrime>(raw[0]) },
                unsafe { std::mem::transmute::<u32, Fp32BitPrime>(raw[1]) },
                unsafe { std::mem::transmute::<u32, Fp32BitPrime>(raw[2]) },
            ];
            let bytes = v.to_bytes();
            assert!(bytes.len() == 12, "advertised length");
            let j: usize = kani::any();
            kani::assume(j < 4);
            assert!(bytes[4 * k + j] == raw[k].to_le_bytes()[j], "element k (symbolic) at offset 4k");
            std::mem::forget(bytes);
            std::mem::forget(v);
            kani::cover!(true);
        }
    }

    // AdditiveShare::from_byte_slice: the decoder of the query-result layout
    harness! {
        #[kani::unwind(5)]
        fn q09_share_slice_decoding() {
            let buf: [u8; 6] = kani::any();
            let n: usize = kani::any();
            kani::assume(n <= 3);
            let mut it = AdditiveShare::<Fp31>::from_byte_slice(&buf[..2 * n]);
            let mut k = 0;
            while k < n {
                match it.next() {
                    Some(Ok(x)) => {
                        assert!(buf[2 * k] < 31 && buf[2 * k + 1] < 31, "only canonical records decode");
                        let mut out = [0u8; 2];
                        x.serialize(ga_mut!(out));
                        assert!(out[0] == buf[2 * k] && out[1] == buf[2 * k + 1], "records come out in order");
                    }
                    Some(Err(e)) => {
                        assert!(buf[2 * k] >= 31 || buf[2 * k + 1] >= 31);
                        std::mem::forget(e);
                    }
                    None => assert!(false, "every encoded record is yielded"),
                }
                k += 1;
            }
            assert!(it.next().is_none(), "nothing beyond the encoded records");
            kani::cover!(n == 3);
        }
    }
    harness! {
        #[kani::unwind(5)]
        fn q09_share_slice_partial_record_mustpanic() {
            // a buffer that is not a whole number of records is not the encoding of anything: it must be
            // refused loudly, not silently truncated
            let buf: [u8; 5] = kani::any();
            let n: usize = kani::any();
            kani::assume(n == 1 || n == 3 || n == 5);
            kani::cover!(true);
            let mut it = AdditiveShare::<Fp31>::from_byte_slice(&buf[..n]);
            let mut k = 0;
            while k < 3 {
                let r = it.next();
                std::mem::forget(r);
                k += 1;
            }
            assert!(false, "MUST NOT RETURN: a trailing partial record was silently dropped");
        }
    }

    harness! {
        #[kani::unwind(12)]
        fn x09_boolean_array_writer_reader_roundtrip() {
            // field packing: write(BA3) . write_boolean . write(BA3) into a BA8, then read them back
            use crate::ff::boolean_array::{BooleanArrayReader, BooleanArrayWriter};
            use crate::secret_sharing::SharedValue;
            let r: [u8; 2] = kani::any();
            let bit: bool = kani::any();
            kani::assume(r[0] < 8 && r[1] < 8);
            let a: BA3 = unsafe { std::mem::transmute([r[0]]) };
            let b: BA3 = unsafe { std::mem::transmute([r[1]]) };
            let mut packed = BA8::ZERO;
            let _ = BooleanArrayWriter::new(&mut packed).write(&a).write_boolean(Boolean::from(bit)).write(&b);
            let raw: [u8; 1] = unsafe { std::mem::transmute(packed) };
            assert!(raw[0] == r[0] | (u8::from(bit) << 3) | (r[1] << 4), "fields are packed back to back, low bits first");
            let rd = BooleanArrayReader::new(&packed);
            let (a2, rd): (BA3, _) = rd.read();
            let (bit2, rd) = rd.read_boolean();
            let (b2, _rd): (BA3, _) = rd.read();
            assert!(a2 == a && bool::from(bit2) == bit && b2 == b, "reading returns what was written");
            kani::cover!(true);
        }
    }
}
