// C06 (index-space part) — hook in protocol/context/validator.rs: the PRSS / channel record ids
// the MAC validator derives per validation batch (`offset`) never collide across roles or batches.
use super::*;
use crate::ff::Fp31;
use crate::sharding::NotSharded;
use crate::verif_kani::common::*;

type V<'a> = Malicious<'a, Fp31, NotSharded>;

harness! {
    fn q06_mac_validator_record_ids_distinct() {
        // the three PRSS draws per batch use ids total*offset + {0,1,2}; the code passes total = 3
        // for PRSS and total = 2 for the u/w exchange.  For every pair of batches and roles an id is
        // shared only by the same role of the same batch.
        let (o1, o2): (usize, usize) = (kani::any(), kani::any());
        kani::assume(o1 < (1 << 28) && o2 < (1 << 28));
        let ids1 = [u32::from(V::u_record(o1, 3)), u32::from(V::w_record(o1, 3)), u32::from(V::r_share_record(o1, 3))];
        let ids2 = [u32::from(V::u_record(o2, 3)), u32::from(V::w_record(o2, 3)), u32::from(V::r_share_record(o2, 3))];
        let (i, j): (usize, usize) = (kani::any(), kani::any());
        kani::assume(i < 3 && j < 3);
        assert!((ids1[i] == ids2[j]) == (i == j && o1 == o2), "PRSS record ids of the MAC validator never collide");
        // u/w exchange with total = 2
        let s1 = [u32::from(V::u_record(o1, 2)), u32::from(V::w_record(o1, 2))];
        let s2 = [u32::from(V::u_record(o2, 2)), u32::from(V::w_record(o2, 2))];
        kani::assume(i < 2 && j < 2);
        assert!((s1[i] == s2[j]) == (i == j && o1 == o2), "u/w channel record ids never collide");
        assert!(u32::from(V::reveal_check_zero_record(o1)) as usize == o1);
        kani::cover!(o1 != o2);
        kani::cover!(true);
    }
}

// native replay slot (cargo kani playback): the driver points IPA_VERIF_REPLAY_DIR at a directory
// holding one file per hook; the generated test calls the harness by its path relative to this module.
#[cfg(test)]
mod replay_here {
    use super::*;
    include!(concat!(env!("IPA_VERIF_REPLAY_DIR"), "/mac_validator.rs"));
}
