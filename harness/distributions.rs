// C12 — hook H4b: `crate::protocol::ipa_prf::oprf_padding::distributions::verif_kani` (the samplers'
// fields are private to this file).
//
// Decided here: the STRUCTURE of the truncated double-geometric sampler, for every outcome sequence
// of its Bernoulli trials (bounded, see below) and every shift <= 10^6:
//   * `DoubleGeometric::sample`  == shift + G1 - G2, where G1, G2 are the numbers of failed trials
//     before the first success of two consecutive runs — negative values included, no clamping;
//   * `TruncatedDoubleGeometric::sample` == the FIRST such draw that lies in 0..=2*shift (both edges
//     included), and nothing else is ever returned.
// With i.i.d. trials of success probability 1 - exp(-epsilon) this is exactly the documented law
// proportional to exp(-epsilon * |x - n|) on 0..2n; the trial probability itself (libm `powf`) and
// the independence of the trials are NOT decided here.
// Environment: the RNG is a script — the first K trials have ARBITRARY outcomes (symbolic bits),
// every later trial succeeds (bound: at most K adversarial trials per call; K = 6 quick, 8 thorough).
use super::*;
use crate::verif_kani::common::*;

/// number of adversarial trials: 6 in the quick harnesses, 8 in the thorough ones (set first thing)
static mut K: u32 = 6;

pub(crate) struct Script {
    bits: u8,
    used: u32,
}

impl Script {
    fn success(bits: u8, k: u32) -> bool {
        k >= unsafe { K } || (bits >> k) & 1 == 1
    }
}

impl rand_core::RngCore for Script {
    fn next_u32(&mut self) -> u32 {
        unreachable!()
    }
    fn next_u64(&mut self) -> u64 {
        // Bernoulli::sample is `rng.gen::<u64>() < p_int`: 0 succeeds for every p > 0, u64::MAX never does
        let s = Script::success(self.bits, self.used);
        self.used += 1;
        if s { 0 } else { u64::MAX }
    }
    fn fill_bytes(&mut self, _dest: &mut [u8]) {
        unreachable!()
    }
    fn try_fill_bytes(&mut self, _dest: &mut [u8]) -> Result<(), rand_core::Error> {
        unreachable!()
    }
}

/// failures before the first success, starting at trial `pos`; returns (failures, next trial)
fn run(bits: u8, pos: u32) -> (u32, u32) {
    let mut k = pos;
    let mut fails = 0;
    while !Script::success(bits, k) {
        fails += 1;
        k += 1;
    }
    (fails, k + 1)
}

fn half() -> Bernoulli {
    match Bernoulli::new(0.5) {
        Ok(b) => b,
        Err(_) => {
            kani::assume(false);
            unreachable!()
        }
    }
}

harness! {
    #[kani::unwind(9)]
    fn q12_double_geometric_structure() {
        let shift: u32 = kani::any();
        kani::assume(shift <= 1_000_000);
        let d = DoubleGeometric { shift, geometric: Geometric { bernoulli: half() } };
        let bits: u8 = kani::any();
        let mut rng = Script { bits, used: 0 };
        let s: i32 = d.sample(&mut rng);
        let (g1, p1) = run(bits, 0);
        let (g2, p2) = run(bits, p1);
        assert!(i64::from(s) == i64::from(shift) + i64::from(g1) - i64::from(g2), "sample == shift + G1 - G2");
        assert!(rng.used == p2, "exactly the trials of the two runs are consumed");
        kani::cover!(s < 0);
        kani::cover!(s == 0 && shift > 0);
        kani::cover!(g1 == 2 && g2 == 2);
    }
}

fn truncated_support(shift: u32) {
    let t = TruncatedDoubleGeometric {
        shift_doubled: 2 * shift,
        double_geometric: DoubleGeometric { shift, geometric: Geometric { bernoulli: half() } },
    };
    let bits: u8 = kani::any();
    let mut rng = Script { bits, used: 0 };
    let v: u32 = t.sample(&mut rng);
    // reference: first draw inside 0..=2*shift
    let mut pos = 0;
    let mut rejected = 0u32;
    let expect = loop {
        let (g1, p1) = run(bits, pos);
        let (g2, p2) = run(bits, p1);
        pos = p2;
        let s = i64::from(shift) + i64::from(g1) - i64::from(g2);
        if s >= 0 && s <= 2 * i64::from(shift) {
            break s;
        }
        rejected += 1;
    };
    assert!(i64::from(v) == expect, "the first draw inside the support is returned");
    assert!(v <= 2 * shift, "never outside 0..=2*shift");
    assert!(rng.used == pos, "rejected draws are discarded whole");
    kani::cover!(v == 0 && shift > 0); // lower edge of the support
    kani::cover!(v == 2 * shift && shift > 0); // upper edge
    kani::cover!(rejected > 0 && v != shift);
    kani::cover!(v + 1 == shift); // the value -1 after re-centring
}

harness! {
    #[kani::unwind(9)]
    fn q12_truncated_sampler_support() {
        let shift: u32 = kani::any();
        kani::assume(shift >= 1 && shift <= 1_000_000);
        truncated_support(shift);
    }
}

harness! {
    #[kani::unwind(11)]
    fn t12_truncated_sampler_support_8_trials() {
        unsafe { K = 8 };
        let shift: u32 = kani::any();
        kani::assume(shift >= 1 && shift <= 1_000_000);
        truncated_support(shift);
    }
}

// shift == 0 separately: the support is the single point 0, so a sampler that wrongly rejects it
// never returns (reported as an unwinding failure, not as a counterexample)
harness! {
    #[kani::unwind(9)]
    fn q12_truncated_sampler_single_point_support() {
        let t = TruncatedDoubleGeometric {
            shift_doubled: 0,
            double_geometric: DoubleGeometric { shift: 0, geometric: Geometric { bernoulli: half() } },
        };
        let bits: u8 = kani::any();
        let mut rng = Script { bits, used: 0 };
        assert!(t.sample(&mut rng) == 0, "the only value of the support");
        kani::cover!(rng.used > 2); // at least one rejected draw
    }
}

// native replay slot (cargo kani playback): the driver points IPA_VERIF_REPLAY_DIR at a directory
// holding one file per hook; the generated test calls the harness by its path relative to this module.
#[cfg(test)]
mod replay_here {
    use super::*;
    include!(concat!(env!("IPA_VERIF_REPLAY_DIR"), "/distributions.rs"));
}
