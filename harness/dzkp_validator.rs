// harness file dzkp_validator (included under cfg(kani) from /repo)

// native replay slot (cargo kani playback): the driver points IPA_VERIF_REPLAY_DIR at a directory
// holding one file per hook; the generated test calls the harness by its path relative to this module.
#[cfg(test)]
mod replay_here {
    use super::*;
    include!(concat!(env!("IPA_VERIF_REPLAY_DIR"), "/dzkp_validator.rs"));
}
