// harness file dzkp_validator (included under cfg(kani) from /repo)
