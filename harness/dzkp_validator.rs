// C03 — hook in protocol/context/dzkp_validator.rs: segment packing of small multiplies into
// 256-bit storage blocks (thorough tier: seven bitvec copies per call are expensive in CBMC).
use super::*;
use crate::ff::boolean_array::BA3;
use crate::verif_kani::common::*;

harness! {
    #[kani::unwind(9)]
    fn x03_insert_segment_small_width3() {
        // 3-bit segments are padded to 4 bits: record id r lands at bits [4r % 256, +3) of block (4r) >> 8
        // and two different records never share a bit.  The batch starts with two zero blocks; the
        // record id is symbolic (0..128), contents symbolic.
        let mut batch = MultiplicationInputsBatch::new(Some(RecordId::from(0usize)), 128, 3);
        batch.vec.resize_with(2, MultiplicationInputsBlock::default);
        let raw: [u8; 7] = kani::any();
        let mut k = 0;
        while k < 7 {
            kani::assume(raw[k] < 8);
            k += 1;
        }
        let vals: [BA3; 7] = unsafe { std::mem::transmute(raw) };
        let r: usize = kani::any();
        kani::assume(r < 128);
        let seg = Segment::from_entries(
            SegmentEntry::from_bitslice(vals[0].as_bitslice()),
            SegmentEntry::from_bitslice(vals[1].as_bitslice()),
            SegmentEntry::from_bitslice(vals[2].as_bitslice()),
            SegmentEntry::from_bitslice(vals[3].as_bitslice()),
            SegmentEntry::from_bitslice(vals[4].as_bitslice()),
            SegmentEntry::from_bitslice(vals[5].as_bitslice()),
            SegmentEntry::from_bitslice(vals[6].as_bitslice()),
        );
        batch.insert_segment(RecordId::from(r), seg);
        assert!(batch.vec.len() == 2);
        let blk = (4 * r) >> 8;
        let pos = (4 * r) % 256;
        let bit: usize = kani::any();
        kani::assume(bit < 3);
        let b = &batch.vec[blk];
        assert!(b.x_left[pos + bit] == ((raw[0] >> bit) & 1 == 1), "x_left lands in the slot of its record");
        assert!(b.z_right[pos + bit] == ((raw[6] >> bit) & 1 == 1), "z_right lands in the slot of its record");
        assert!(b.prss_left[pos + bit] == ((raw[4] >> bit) & 1 == 1) && b.prss_right[pos + bit] == ((raw[5] >> bit) & 1 == 1));
        // every other bit of the store is untouched (still zero)
        let (ob, op): (usize, usize) = (kani::any(), kani::any());
        kani::assume(ob < 2 && op < 256 && !(ob == blk && op >= pos && op < pos + 3));
        assert!(!batch.vec[ob].x_left[op] && !batch.vec[ob].z_right[op], "no other record's slot is written");
        kani::cover!(blk == 1);
        std::mem::forget(batch);
    }
}

// The record id is instantiated (a symbolic id makes seven bitvec copies at symbolic offsets: > 1800 s);
// the seven intermediates stay symbolic.
macro_rules! insert_small {
    ($name:ident, $r:expr) => {
        harness! {
            #[kani::unwind(9)]
            fn $name() {
                let mut batch = MultiplicationInputsBatch::new(Some(RecordId::from(0usize)), 128, 3);
                batch.vec.resize_with(2, MultiplicationInputsBlock::default);
                let raw: [u8; 7] = kani::any();
                let mut k = 0;
                while k < 7 {
                    kani::assume(raw[k] < 8);
                    k += 1;
                }
                let vals: [BA3; 7] = unsafe { std::mem::transmute(raw) };
                let r: usize = $r;
                let seg = Segment::from_entries(
                    SegmentEntry::from_bitslice(vals[0].as_bitslice()),
                    SegmentEntry::from_bitslice(vals[1].as_bitslice()),
                    SegmentEntry::from_bitslice(vals[2].as_bitslice()),
                    SegmentEntry::from_bitslice(vals[3].as_bitslice()),
                    SegmentEntry::from_bitslice(vals[4].as_bitslice()),
                    SegmentEntry::from_bitslice(vals[5].as_bitslice()),
                    SegmentEntry::from_bitslice(vals[6].as_bitslice()),
                );
                batch.insert_segment(RecordId::from(r), seg);
                assert!(batch.vec.len() == 2);
                // 3-bit segments are padded to 4 bits: record r owns bits [4r % 256, +3) of block (4r) >> 8
                let blk = (4 * r) >> 8;
                let pos = (4 * r) % 256;
                let bit: usize = kani::any();
                kani::assume(bit < 3);
                let b = &batch.vec[blk];
                let got = [b.x_left[pos + bit], b.x_right[pos + bit], b.y_left[pos + bit], b.y_right[pos + bit],
                           b.prss_left[pos + bit], b.prss_right[pos + bit], b.z_right[pos + bit]];
                let f: usize = kani::any();
                kani::assume(f < 7);
                assert!(got[f] == ((raw[f] >> bit) & 1 == 1), "intermediate f (symbolic) lands in the slot of its record, fields not mixed up");
                // the slots of all other records stay untouched (zero)
                let (ob, op): (usize, usize) = (kani::any(), kani::any());
                kani::assume(ob < 2 && op < 256 && !(ob == blk && op >= pos && op < pos + 3));
                assert!(!batch.vec[ob].x_left[op] && !batch.vec[ob].z_right[op], "no other record's slot is written");
                kani::cover!(true);
                std::mem::forget(batch);
            }
        }
    };
}
insert_small!(x03_insert_segment_w3_r0, 0);
insert_small!(x03_insert_segment_w3_r1, 1);
insert_small!(x03_insert_segment_w3_r63, 63);
insert_small!(x03_insert_segment_w3_r64, 64);
insert_small!(x03_insert_segment_w3_r85, 85);
insert_small!(x03_insert_segment_w3_r127, 127);

// native replay slot (cargo kani playback): the driver points IPA_VERIF_REPLAY_DIR at a directory
// holding one file per hook; the generated test calls the harness by its path relative to this module.
#[cfg(test)]
mod replay_here {
    use super::*;
    include!(concat!(env!("IPA_VERIF_REPLAY_DIR"), "/dzkp_validator.rs"));
}
