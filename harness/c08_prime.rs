// C08 — prime fields Fp31 / Fp32BitPrime / Fp61BitPrime: canonical results and
// agreement with the integer reference (a∘b) mod PRIME for every pair of valid elements.
//
// Elements are built from / read back as raw storage words by transmute, so that
// the harness does not depend on any conversion function of the code under check.
use crate::ff::{Field, Fp31, Fp32BitPrime, Fp61BitPrime, PrimeField, Serializable, U128Conversions};
use crate::secret_sharing::SharedValue;
use crate::verif_kani::common::*;

macro_rules! raw_fns {
    ($mk:ident, $rd:ident, $f:ty, $s:ty) => {
        #[allow(dead_code)]
        pub(crate) fn $mk(v: $s) -> $f {
            // single-field tuple struct over its storage word
            unsafe { std::mem::transmute::<$s, $f>(v) }
        }
        #[allow(dead_code)]
        pub(crate) fn $rd(v: $f) -> $s {
            unsafe { std::mem::transmute::<$f, $s>(v) }
        }
    };
}
raw_fns!(mk31, rd31, Fp31, u8);
raw_fns!(mk32, rd32, Fp32BitPrime, u32);
raw_fns!(mk61, rd61, Fp61BitPrime, u64);

pub(crate) const P31: u128 = 31;
pub(crate) const P32: u128 = 4_294_967_291; // 2^32 - 5
pub(crate) const P61: u128 = 2_305_843_009_213_693_951; // 2^61 - 1

/// Reference reductions.  31 and 2^32-5: Rust's `%` at the width the value needs (u64).
/// 2^61-1: an independent limb fold (no 128-bit divider), itself validated against the
/// defining equation v = q*P + r in `q08_red61_is_mod`.
pub(crate) fn red31(v: u128) -> u128 {
    // 2^5 == 1 (mod 31): digit sum in base 32, then small conditional subtractions
    let mut s: u128 = 0;
    let mut x = v;
    let mut i = 0;
    while i < 26 {
        s += x & 31;
        x >>= 5;
        i += 1;
    }
    // s <= 26 * 31 = 806 < 2^10
    let mut t = (s & 31) + (s >> 5); // <= 31 + 25
    if t >= 31 {
        t -= 31;
    }
    if t >= 31 {
        t -= 31;
    }
    t
}
pub(crate) fn red32(v: u128) -> u128 {
    // 2^32 == 5 (mod 2^32 - 5): limb fold
    const M: u128 = 0xFFFF_FFFF;
    let s = (v & M) + 5 * ((v >> 32) & M) + 25 * ((v >> 64) & M) + 125 * (v >> 96); // < 2^40
    let s = (s & M) + 5 * (s >> 32); // < 2^32 + 5 * 2^8
    let mut s = (s & M) + 5 * (s >> 32); // < 2^32 + 5
    if s >= P32 {
        s -= P32;
    }
    if s >= P32 {
        s -= P32;
    }
    s
}
pub(crate) fn red61(v: u128) -> u128 {
    let mut s = (v & P61) + ((v >> 61) & P61) + (v >> 122);
    if s >= P61 {
        s -= P61;
    }
    if s >= P61 {
        s -= P61;
    }
    if s >= P61 {
        s -= P61;
    }
    s
}

macro_rules! prime_field_ops {
    ($modname:ident, $f:ty, $s:ty, $mk:ident, $rd:ident, $p:expr, $bits:expr, $red:path, $mulb:expr, $mulsolver:ident) => {
        pub(crate) mod $modname {
            use super::*;

            fn any_elem() -> ($f, u128) {
                let v: $s = kani::any();
                kani::assume(u128::from(v) < $p);
                ($mk(v), u128::from(v))
            }

            harness! {
                fn q08_constants() {
                    assert!(u128::from(<$f as PrimeField>::PRIME) == $p);
                    assert!(<$f as SharedValue>::BITS == $bits);
                    assert!($rd(<$f as SharedValue>::ZERO) == 0);
                    assert!($rd(<$f as Field>::ONE) == 1);
                    assert!($rd(<$f as Default>::default()) == 0);
                    kani::cover!(true);
                }
            }

            harness! {
                fn q08_add_ref() {
                    let (a, ai) = any_elem();
                    let (b, bi) = any_elem();
                    let r = u128::from($rd(a + b));
                    assert!(r < $p);
                    assert!(r == $red(ai + bi));
                    let mut c = a;
                    c += b;
                    assert!(u128::from($rd(c)) == r);
                    kani::cover!(ai + bi >= $p);
                    kani::cover!(true);
                }
            }

            harness! {
                fn q08_sub_ref() {
                    let (a, ai) = any_elem();
                    let (b, bi) = any_elem();
                    let r = u128::from($rd(a - b));
                    assert!(r < $p);
                    assert!(r == $red($p + ai - bi));
                    let mut c = a;
                    c -= b;
                    assert!(u128::from($rd(c)) == r);
                    // a - b == a + (-b)
                    assert!($rd(a + (-b)) == $rd(a - b));
                    kani::cover!(ai < bi);
                    kani::cover!(true);
                }
            }

            harness! {
                fn q08_neg_ref() {
                    let (a, ai) = any_elem();
                    let r = u128::from($rd(-a));
                    assert!(r < $p, "negation is canonical");
                    assert!(r == $red($p - ai));
                    assert!($rd(a + (-a)) == 0);
                    assert!((-a == <$f as SharedValue>::ZERO) == (ai == 0));
                    kani::cover!(ai == 0);
                    kani::cover!(true);
                }
            }

            harness! {
                #[kani::solver($mulsolver)]
                fn q08_mul_ref() {
                    // $mulb bounds the second factor (full width where the solver finishes)
                    let (a, ai) = any_elem();
                    let (b, bi) = any_elem();
                    kani::assume(bi < (1u128 << $mulb));
                    let r = u128::from($rd(a * b));
                    assert!(r < $p);
                    assert!(r == $red(ai * bi));
                    kani::cover!(ai * bi >= $p);
                    kani::cover!(true);
                }
            }

            harness! {
                fn q08_mul_canonical_full_width() {
                    let (a, _ai) = any_elem();
                    let (b, _bi) = any_elem();
                    assert!(u128::from($rd(a * b)) < $p, "product is canonical for all a, b");
                    kani::cover!(true);
                }
            }

            harness! {
                fn q08_eq_is_raw_eq() {
                    let (a, ai) = any_elem();
                    let (b, bi) = any_elem();
                    assert!((a == b) == (ai == bi));
                    assert!(a.as_u128() == ai);
                    use subtle::ConstantTimeEq;
                    assert!(bool::from(a.ct_eq(&b)) == (ai == bi));
                    kani::cover!(a == b);
                    kani::cover!(true);
                }
            }

            harness! {
                fn q08_try_from_ref() {
                    // try_from(v): Ok iff v fits in BITS bits; value is v mod PRIME, canonical.
                    let v: u128 = kani::any();
                    kani::assume(v < (1u128 << 64));
                    match <$f as TryFrom<u128>>::try_from(v) {
                        Ok(x) => {
                            assert!(v < (1u128 << $bits));
                            let r = u128::from($rd(x));
                            assert!(r < $p);
                            assert!(r == $red(v));
                            kani::cover!(v >= $p);
                        }
                        Err(e) => {
                            assert!(v >= (1u128 << $bits));
                            std::mem::forget(e);
                        }
                    }
                    kani::cover!(true);
                }
            }

            harness! {
                fn q08_serde_bijection() {
                    // every byte string: accepted iff it is the LE encoding of v < PRIME,
                    // and re-encoding reproduces it.
                    let bytes: [u8; std::mem::size_of::<$s>()] = kani::any();
                    let v = <$s>::from_le_bytes(bytes);
                    match <$f as Serializable>::deserialize(ga!(bytes)) {
                        Ok(x) => {
                            assert!(u128::from(v) < $p);
                            assert!($rd(x) == v);
                            let mut out = [0xA5u8; std::mem::size_of::<$s>()];
                            x.serialize(ga_mut!(out));
                            assert!(out == bytes);
                            kani::cover!(true);
                        }
                        Err(e) => {
                            assert!(u128::from(v) >= $p);
                            std::mem::forget(e);
                            kani::cover!(true);
                        }
                    }
                    // and every valid element encodes to its LE bytes
                    let (a, ai) = any_elem();
                    let mut out = [0xA5u8; std::mem::size_of::<$s>()];
                    a.serialize(ga_mut!(out));
                    assert!(u128::from(<$s>::from_le_bytes(out)) == ai);
                }
            }
        }
    };
}

prime_field_ops!(fp31, Fp31, u8, mk31, rd31, P31, 8, red31, 8, cadical);
prime_field_ops!(fp32, Fp32BitPrime, u32, mk32, rd32, P32, 32, red32, 32, cadical);
prime_field_ops!(fp61, Fp61BitPrime, u64, mk61, rd61, P61, 61, red61, 61, z3);

// ---------------------------------------------------------------------------------
// truncate_from / from_random_u128 over the full u128 domain.
// Reference without a 128-bit divider: the (unique) q, r with v = q*P + r, r < P are
// introduced as fresh symbolic values constrained by that equation.
// ---------------------------------------------------------------------------------
pub(crate) mod truncate {
    use super::*;
    use crate::protocol::prss::FromRandomU128;

    /// (q, r) with v == q*P61 + r, r < P61, introduced as fresh symbolic values.
    /// P61 is odd, so q is unique modulo 2^128; q <= floor((2^128-1)/P61) = 2^67+64
    /// excludes wrap-around, hence (q, r) is the integer quotient/remainder for EVERY v.
    fn divmod61(v: u128) -> (u128, u128) {
        let q: u128 = kani::any();
        let r: u128 = kani::any();
        kani::assume(r < P61 && r <= v);
        kani::assume(q <= (1u128 << 67) + 64);
        kani::assume((q << 61).wrapping_sub(q) == v - r);
        (q, r)
    }

    harness! {
        fn q08_red61_is_mod() {
            // validates the harness-side reference red61 against the defining equation
            let v: u128 = kani::any();
            let (_q, r) = divmod61(v);
            assert!(red61(v) == r);
            kani::cover!(v > u128::MAX - 1000);
            kani::cover!(true);
        }
    }

    harness! {
        fn q08_fp61_truncate_u128() {
            let v: u128 = kani::any();
            let r = red61(v);
            let x = Fp61BitPrime::truncate_from(v);
            assert!(u128::from(rd61(x)) < P61, "truncate_from(u128) canonical");
            assert!(u128::from(rd61(x)) == r, "truncate_from(u128) == v mod P");
            let y = Fp61BitPrime::from_random_u128(v);
            assert!(rd61(y) == rd61(x));
            kani::cover!(v > u128::MAX - 1000);
            kani::cover!(true);
        }
    }

    harness! {
        #[kani::solver(z3)]
        fn x08_fp61_mul_boundary() {
            // full-width first factor; second factor P-1-j (j < 2^8): a * (P-1-j) == -(a * (j+1))
            let a: u64 = kani::any();
            kani::assume(u128::from(a) < P61);
            let j: u64 = kani::any();
            kani::assume(j < (1 << 8));
            let b: u64 = (P61 as u64) - 1 - j;
            let r = u128::from(rd61(mk61(a) * mk61(b)));
            // reference: -(a*(j+1)) mod P, with a small multiplier only
            let t = red61(u128::from(a) * u128::from(j + 1));
            let expect = if t == 0 { 0 } else { P61 - t };
            assert!(r == expect);
            kani::cover!(j == 0);
            kani::cover!(true);
        }
    }

    macro_rules! fp61_mul_wide {
        ($name:ident, $bbits:expr) => {
            harness! {
                #[kani::solver(z3)]
                fn $name() {
                    // second factor below 2^$bbits, first factor full width; z3 back end
                    let a: u64 = kani::any();
                    let b: u64 = kani::any();
                    kani::assume(u128::from(a) < P61 && u128::from(b) < P61 && u128::from(b) < (1u128 << $bbits));
                    let r = u128::from(rd61(mk61(a) * mk61(b)));
                    assert!(r == red61(u128::from(a) * u128::from(b)));
                    kani::cover!(true);
                }
            }
        };
    }
    fp61_mul_wide!(q08_fp61_mul_ref_b32, 32);
    fp61_mul_wide!(x08_fp61_mul_ref_b48, 48);
    fp61_mul_wide!(t08_fp61_mul_ref_full, 61);

    harness! {
        fn q08_fp61_const_truncate_from_bit() {
            let v: u64 = kani::any();
            let x = Fp61BitPrime::const_truncate(v);
            assert!(u128::from(rd61(x)) == red61(u128::from(v)));
            let b: bool = kani::any();
            assert!(rd61(Fp61BitPrime::from_bit(b)) == u64::from(b));
            kani::cover!(true);
        }
    }

    // Fp31 / Fp32BitPrime reduce with Rust's `%` on u128.  A 128-bit divider against the fold
    // reference did not finish under any back end (cadical, kissat, z3, cvc5: > 900 s), so the
    // solver-decided domain is v < 2^64 (the upper half of the divider is then constant);
    // 2^64 <= v is outside the claim.
    harness! {
        fn q08_fp32_truncate_u64() {
            let v: u128 = kani::any();
            kani::assume(v < (1u128 << 64));
            let x = Fp32BitPrime::truncate_from(v);
            assert!(u128::from(rd32(x)) == red32(v));
            assert!(rd32(Fp32BitPrime::from_random_u128(v)) == rd32(x));
            kani::cover!(v > (1u128 << 63));
            kani::cover!(true);
        }
    }

    harness! {
        fn q08_fp31_truncate_u32() {
            let v: u128 = kani::any();
            kani::assume(v < (1u128 << 32));
            let x = Fp31::truncate_from(v);
            assert!(u128::from(rd31(x)) == u128::from((v as u64) % 31));
            assert!(rd31(Fp31::from_random_u128(v)) == rd31(x));
            kani::cover!(v > (1u128 << 31));
            kani::cover!(true);
        }
    }
}
