// C08 — binary extension fields Gf2 / Gf3Bit / Gf8Bit / Gf9Bit / Gf20Bit / Gf32Bit / Gf40Bit.
//
// Small fields (<= 9 bits): every axiom incl. "no zero divisors" is decided directly on
// the real `Mul`.  Large fields: the real `Mul` is shown equal, for all a and b, to
// polynomial multiplication modulo `POLYNOMIAL` (an independently written shift-and-add
// reference); irreducibility of `POLYNOMIAL` is decided by the SMT side queries (lib/smt_c08.py).
use crate::ff::{Field, GaloisField, Gf2, Gf3Bit, Gf8Bit, Gf9Bit, Gf20Bit, Gf32Bit, Gf40Bit, Serializable, U128Conversions};
use crate::secret_sharing::SharedValue;
use crate::verif_kani::common::*;

/// Polynomial multiplication modulo `poly` (degree `bits`): interleaved shift/reduce.
pub(crate) fn gf_ref_mul(a: u128, b: u128, poly: u128, bits: u32) -> u128 {
    let mut acc = 0u128;
    let mut x = a;
    let mut i = 0;
    while i < bits {
        if (b >> i) & 1 == 1 {
            acc ^= x;
        }
        x <<= 1;
        if (x >> bits) & 1 == 1 {
            x ^= poly;
        }
        i += 1;
    }
    acc
}

macro_rules! gf_common {
    ($modname:ident, $f:ty, $bytes:expr, $bits:expr, $unw:literal, $consts:ident, $addsub:ident, $conv:ident, $trunc:ident, $assign:ident, $peq:ident) => {
        pub(crate) mod $modname {
            use super::*;
            pub(crate) const BYTES: usize = $bytes;
            pub(crate) const BITS: u32 = $bits;
            pub(crate) const MASK: u128 = (1u128 << $bits) - 1;

            pub(crate) fn mk(v: u128) -> $f {
                let le = v.to_le_bytes();
                let mut raw = [0u8; BYTES];
                let mut i = 0;
                while i < BYTES {
                    raw[i] = le[i];
                    i += 1;
                }
                unsafe { std::mem::transmute::<[u8; BYTES], $f>(raw) }
            }
            pub(crate) fn rd(x: $f) -> u128 {
                let raw = unsafe { std::mem::transmute::<$f, [u8; BYTES]>(x) };
                let mut le = [0u8; 16];
                let mut i = 0;
                while i < BYTES {
                    le[i] = raw[i];
                    i += 1;
                }
                u128::from_le_bytes(le)
            }
            pub(crate) fn any_elem() -> ($f, u128) {
                let v: u128 = kani::any();
                kani::assume(v <= MASK);
                (mk(v), v)
            }

            harness! {
                #[kani::unwind($unw)]
                fn $consts() {
                    let poly = <$f as GaloisField>::POLYNOMIAL;
                    assert!(<$f as SharedValue>::BITS == BITS);
                    assert!(poly >> BITS == 1, "POLYNOMIAL has degree BITS");
                    assert!(rd(<$f as SharedValue>::ZERO) == 0);
                    assert!(rd(<$f as Field>::ONE) == 1);
                    let (a, ai) = any_elem();
                    assert!(rd(-a) == ai);
                    kani::cover!(true);
                }
            }

            harness! {
                #[kani::unwind($unw)]
                fn $addsub() {
                    let (a, ai) = any_elem();
                    let (b, bi) = any_elem();
                    assert!(rd(a + b) == ai ^ bi);
                    assert!(rd(a - b) == ai ^ bi);
                    kani::cover!(true);
                }
            }

            harness! {
                #[kani::unwind($unw)]
                fn $assign() {
                    let (a, ai) = any_elem();
                    let (b, bi) = any_elem();
                    let mut c = a;
                    c += b;
                    assert!(rd(c) == ai ^ bi);
                    let mut d = a;
                    d -= b;
                    assert!(rd(d) == ai ^ bi);
                    kani::cover!(true);
                }
            }

            harness! {
                #[kani::unwind($unw)]
                fn $peq() {
                    let (a, ai) = any_elem();
                    let (b, bi) = any_elem();
                    assert!((a == b) == (ai == bi));
                    kani::cover!(true);
                }
            }

            harness! {
                #[kani::unwind($unw)]
                fn $conv() {
                    let (a, ai) = any_elem();
                    let (b, bi) = any_elem();
                    assert!(U128Conversions::as_u128(&a) == ai);
                    assert!(a.cmp(&b) == ai.cmp(&bi), "Ord is the integer order");
                    let i: usize = kani::any();
                    kani::assume(i < BITS as usize);
                    assert!(a[i] == ((ai >> i) & 1 == 1));
                    kani::cover!(true);
                }
            }

            harness! {
                #[kani::unwind($unw)]
                fn q08_from_byte_slice_is_canonical() {
                    // TryFrom<&[u8]>: whatever lengths are accepted, the element built is canonical
                    // (zero padding) and is the little-endian value of the bytes, zero-extended
                    let raw: [u8; BYTES + 1] = kani::any();
                    let len: usize = kani::any();
                    kani::assume(len <= BYTES + 1);
                    match <$f as TryFrom<&[u8]>>::try_from(&raw[..len]) {
                        Ok(x) => {
                            assert!(len <= BYTES, "a slice longer than the element is refused");
                            let v = rd(x);
                            assert!(v <= MASK, "the element built from a slice has zero padding");
                            let i: usize = kani::any();
                            kani::assume(i < BYTES);
                            let expect = if i < len { raw[i] } else { 0 };
                            assert!(((v >> (8 * i)) & 0xFF) as u8 == expect, "bytes are taken little endian, the rest is zero");
                            kani::cover!(true);
                        }
                        Err(e) => {
                            std::mem::forget(e);
                            kani::cover!(true);
                        }
                    }
                }
            }

            harness! {
                #[kani::unwind($unw)]
                fn $trunc() {
                    let v: u128 = kani::any();
                    assert!(rd(<$f as U128Conversions>::truncate_from(v)) == v & MASK);
                    match <$f as TryFrom<u128>>::try_from(v) {
                        Ok(x) => {
                            assert!(v <= MASK);
                            assert!(rd(x) == v);
                        }
                        Err(e) => {
                            assert!(v > MASK);
                            std::mem::forget(e);
                        }
                    }
                    kani::cover!(v > MASK);
                    kani::cover!(true);
                }
            }
        }
    };
}

gf_common!(gf2, Gf2, 1, 1, 10, q08_constants_neg, q08_add_sub_eq, t08_as_u128_ord_index, q08_truncate_try_from, t08_add_sub_assign, t08_partial_eq);
gf_common!(gf3, Gf3Bit, 1, 3, 10, q08_constants_neg, q08_add_sub_eq, q08_as_u128_ord_index, q08_truncate_try_from, t08_add_sub_assign, x08_partial_eq);
gf_common!(gf8, Gf8Bit, 1, 8, 10, q08_constants_neg, q08_add_sub_eq, q08_as_u128_ord_index, q08_truncate_try_from, x08_add_sub_assign, t08_partial_eq);
gf_common!(gf9, Gf9Bit, 2, 9, 18, q08_constants_neg, t08_add_sub_eq, t08_as_u128_ord_index, x08_truncate_try_from, t08_add_sub_assign, x08_partial_eq);
gf_common!(gf20, Gf20Bit, 3, 20, 26, q08_constants_neg, x08_add_sub_eq, x08_as_u128_ord_index, x08_truncate_try_from, t08_add_sub_assign, x08_partial_eq);
gf_common!(gf32, Gf32Bit, 4, 32, 34, q08_constants_neg, x08_add_sub_eq, x08_as_u128_ord_index, t08_truncate_try_from, x08_add_sub_assign, x08_partial_eq);
gf_common!(gf40, Gf40Bit, 5, 40, 42, q08_constants_neg, x08_add_sub_eq, x08_as_u128_ord_index, t08_truncate_try_from, x08_add_sub_assign, x08_partial_eq);

// ---- multiplication ---------------------------------------------------------------------
// `$mulref`: for all a, b: Mul == polynomial product mod POLYNOMIAL, zero padding, and (small
// fields, where the solver finishes) directly: a*b == 0 => a == 0 or b == 0.
macro_rules! gf_mul {
    ($modname:ident, $m:ident, $f:ty, $unw:literal, $mulref:ident, $comm:ident, $assoc:ident, $distrib:ident, $inv:ident) => {
        pub(crate) mod $modname {
            use super::*;
            use super::$m::*;

            harness! {
                #[kani::unwind($unw)]
                fn $mulref() {
                    let poly = <$f as GaloisField>::POLYNOMIAL;
                    let (a, ai) = any_elem();
                    let (b, bi) = any_elem();
                    let r = rd(a * b);
                    assert!(r <= MASK, "product has zero padding");
                    assert!(r == gf_ref_mul(ai, bi, poly, BITS), "Mul == polynomial product mod POLYNOMIAL");
                    if BITS <= 9 {
                        assert!(!(r == 0 && ai != 0 && bi != 0), "no zero divisors");
                    }
                    kani::cover!(r == 1 && ai > 1 || BITS == 1);
                    kani::cover!(true);
                }
            }

            harness! {
                #[kani::unwind($unw)]
                fn $comm() {
                    let (a, ai) = any_elem();
                    let (b, _bi) = any_elem();
                    let r = rd(a * b);
                    assert!(rd(b * a) == r, "commutative");
                    assert!(rd(a * <$f as Field>::ONE) == ai, "identity");
                    let mut c = a;
                    c *= b;
                    assert!(rd(c) == r, "*= agrees with *");
                    kani::cover!(true);
                }
            }

            harness! {
                #[kani::unwind($unw)]
                fn $assoc() {
                    let (a, _) = any_elem();
                    let (b, _) = any_elem();
                    let (c, _) = any_elem();
                    assert!(rd((a * b) * c) == rd(a * (b * c)), "associative");
                    kani::cover!(true);
                }
            }

            harness! {
                #[kani::unwind($unw)]
                fn $distrib() {
                    let (a, _) = any_elem();
                    let (b, _) = any_elem();
                    let (c, _) = any_elem();
                    assert!(rd(a * (b + c)) == rd(a * b + a * c), "distributive");
                    kani::cover!(true);
                }
            }

            harness! {
                #[kani::unwind($unw)]
                fn $inv() {
                    // every non-zero a has the inverse a^(2^BITS - 2), computed with the real Mul
                    let (a, ai) = any_elem();
                    kani::assume(ai != 0);
                    let mut inv = <$f as Field>::ONE;
                    let mut sq = a;
                    let mut i = 1;
                    while i < BITS {
                        sq = sq * sq;
                        inv = inv * sq;
                        i += 1;
                    }
                    assert!(rd(a * inv) == 1, "a * a^(2^n-2) == 1");
                    kani::cover!(true);
                }
            }
        }
    };
}

gf_mul!(gf2_mul, gf2, Gf2, 10, q08_mul_ref, t08_mul_comm_identity, x08_mul_assoc, x08_mul_distrib, x08_inverse);
gf_mul!(gf3_mul, gf3, Gf3Bit, 10, q08_mul_ref, t08_mul_comm_identity, x08_mul_assoc, t08_mul_distrib, t08_inverse);
gf_mul!(gf8_mul, gf8, Gf8Bit, 10, q08_mul_ref, t08_mul_comm_identity, x08_mul_assoc, x08_mul_distrib, x08_inverse);
gf_mul!(gf9_mul, gf9, Gf9Bit, 18, q08_mul_ref, t08_mul_comm_identity, x08_mul_assoc, x08_mul_distrib, x08_inverse);
gf_mul!(gf20_mul, gf20, Gf20Bit, 26, x08_mul_ref, x08_mul_comm_identity, x08_mul_assoc, x08_mul_distrib, x08_inverse);
gf_mul!(gf32_mul, gf32, Gf32Bit, 34, x08_mul_ref, x08_mul_comm_identity, x08_mul_assoc, x08_mul_distrib, x08_inverse);
gf_mul!(gf40_mul, gf40, Gf40Bit, 42, x08_mul_ref, x08_mul_comm_identity, x08_mul_assoc, x08_mul_distrib, x08_inverse);

// ---- the modulus, exported to the SMT side queries ---------------------------------------
// The driver reads POLYNOMIAL out of the compiled code through the counterexample of this
// cover statement (concrete playback), so the constant is never copied from source text.
pub(crate) mod moduli {
    use super::*;
    use crate::ff::{Fp31, Fp32BitPrime, Fp61BitPrime, PrimeField};
    harness! {
        fn q08_export_moduli() {
            let p: [u128; 10] = kani::any();
            kani::cover!(
                p[0] == <Gf2 as GaloisField>::POLYNOMIAL
                    && p[1] == <Gf3Bit as GaloisField>::POLYNOMIAL
                    && p[2] == <Gf8Bit as GaloisField>::POLYNOMIAL
                    && p[3] == <Gf9Bit as GaloisField>::POLYNOMIAL
                    && p[4] == <Gf20Bit as GaloisField>::POLYNOMIAL
                    && p[5] == <Gf32Bit as GaloisField>::POLYNOMIAL
                    && p[6] == <Gf40Bit as GaloisField>::POLYNOMIAL
                    && p[7] == u128::from(<Fp31 as PrimeField>::PRIME)
                    && p[8] == u128::from(<Fp32BitPrime as PrimeField>::PRIME)
                    && p[9] == u128::from(<Fp61BitPrime as PrimeField>::PRIME)
            );
        }
    }
}
