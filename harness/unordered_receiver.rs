// harness file unordered_receiver (included under cfg(kani) from /repo)
