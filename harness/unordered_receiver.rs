// C14 — hook in helpers/buffers/unordered_receiver.rs: the receive side as data-structure steps
// from an arbitrary cursor position: the ring of parked wakers, the overflow wakers, and one
// `poll_next` over spare bytes / a scripted chunk stream with 1-byte messages (Fp31: bytes >= 31
// do not decode, so both the Ok and the error path are taken).
use super::*;
use crate::ff::Fp31;
use crate::verif_kani::common::rawwake::{waker, woken};
use crate::verif_kani::common::*;

const C: usize = 2; // capacity of the waker ring in these harnesses

pub(crate) struct Chunks {
    chunks: [&'static [u8]; 2],
    next: usize,
    pending: bool,
}
impl Stream for Chunks {
    type Item = &'static [u8];
    fn poll_next(mut self: Pin<&mut Self>, _cx: &mut Context<'_>) -> Poll<Option<Self::Item>> {
        if self.pending {
            return Poll::Pending;
        }
        if self.next < 2 {
            self.next += 1;
            Poll::Ready(Some(self.chunks[self.next - 1]))
        } else {
            Poll::Ready(None)
        }
    }
}

fn state(next: usize, spare: Vec<u8>, chunks: [&'static [u8]; 2], pending: bool) -> OperatingState<Chunks, &'static [u8]> {
    let mut wakers = Vec::with_capacity(C);
    let mut k = 0;
    while k < C {
        wakers.push(None);
        k += 1;
    }
    OperatingState {
        stream: Box::pin(Chunks { chunks, next: 0, pending }),
        next,
        max_polled_idx: None,
        spare: Spare { buf: spare, offset: 0 },
        wakers,
        overflow_wakers: Vec::new(),
        _marker: PhantomData,
    }
}

harness! {
    #[kani::unwind(6)]
    fn x14_receiver_waker_ring_step() {
        // park request i (next < i <= next + C) and a far-ahead request, then advance: the waker
        // parked for the new `next` is woken exactly when `next` reaches it; far-ahead requests are
        // woken every C/2 advances.
        // the cursor is instantiated (symbolic cursors make the symbolic ring index explode in CBMC's
        // post-processing: > 400 s, out of memory); the parked position i stays symbolic
        let next: usize = 1;
        let mut st = state(next, Vec::new(), [&[], &[]], true);
        let i: usize = kani::any();
        kani::assume(i > next && i <= next + C);
        st.add_waker(i, &waker(0));
        let far: usize = kani::any();
        kani::assume(far > next + C && far < 2000);
        st.add_waker(far, &waker(1));
        assert!(woken(0) == 0 && woken(1) == 0);
        let mut step = 0;
        while step < C {
            st.wake_next();
            step += 1;
            assert!(st.next == next + step);
            assert!(woken(0) == usize::from(next + step >= i), "request i is woken exactly when next reaches i");
            if (next + step) % (C / 2) == 0 {
                assert!(woken(1) >= 1, "far-ahead requests are woken within C/2 advances");
            }
        }
        assert!(woken(0) == 1 && woken(1) == 1, "each parked waker is used once");
        kani::cover!(i == next + C);
        std::mem::forget(st);
    }
}

harness! {
    #[kani::unwind(6)]
    fn x14_receiver_poll_next_step() {
        // one poll for the next record, data either in the spare buffer or in the next chunk(s)
        let data: &'static [u8; 2] = Box::leak(Box::new(kani::any()));
        let next: usize = 0;
        let in_spare: bool = kani::any();
        let empty_first: bool = kani::any();
        let mut st = if in_spare {
            state(next, vec![data[0], data[1]], [&[], &[]], true)
        } else if empty_first {
            state(next, Vec::new(), [&[], &data[..]], false)
        } else {
            state(next, Vec::new(), [&data[..], &[]], false)
        };
        // the request for the following record is parked
        st.add_waker(next + 1, &waker(0));
        let w = waker(3);
        let mut cx = Context::from_waker(&w);
        match st.poll_next::<Fp31>(&mut cx) {
            Poll::Ready(Ok(m)) => {
                assert!(data[0] < 31 && crate::verif_kani::c08_prime::rd31(m) == data[0], "record `next` is the next byte of the stream");
            }
            Poll::Ready(Err(e)) => {
                assert!(data[0] >= 31, "an error only for an undecodable record");
                std::mem::forget(e);
            }
            Poll::Pending => assert!(false, "data is available"),
        }
        assert!(st.next == next + 1, "the record was consumed");
        assert!(woken(0) == 1, "the request for the following record is woken, also after a decoding error");
        // the following record is served from the spare bytes
        match st.poll_next::<Fp31>(&mut cx) {
            Poll::Ready(Ok(m)) => assert!(data[1] < 31 && crate::verif_kani::c08_prime::rd31(m) == data[1]),
            Poll::Ready(Err(e)) => {
                assert!(data[1] >= 31);
                std::mem::forget(e);
            }
            Poll::Pending => assert!(false),
        }
        assert!(st.next == next + 2);
        kani::cover!(data[0] >= 31);
        kani::cover!(!in_spare && empty_first);
        std::mem::forget(st);
    }
}

harness! {
    #[kani::unwind(6)]
    fn q14_receiver_spare_record_consumed_also_on_error() {
        // the next record is already in the spare buffer (stream pending): one poll consumes exactly
        // that record — cursor +1, the parked request for the following record is woken — whether or
        // not it decodes (Fp31: bytes >= 31 do not), and the second poll serves the following byte.
        let data: [u8; 2] = kani::any();
        let next: usize = 0;
        let mut st = state(next, vec![data[0], data[1]], [&[], &[]], true);
        st.add_waker(next + 1, &waker(0));
        let w = waker(3);
        let mut cx = Context::from_waker(&w);
        match st.poll_next::<Fp31>(&mut cx) {
            Poll::Ready(Ok(m)) => assert!(data[0] < 31 && crate::verif_kani::c08_prime::rd31(m) == data[0], "record `next` is the next byte of the stream"),
            Poll::Ready(Err(e)) => {
                assert!(data[0] >= 31, "an error only for an undecodable record");
                std::mem::forget(e);
            }
            Poll::Pending => assert!(false, "data is available"),
        }
        assert!(st.next == next + 1, "the record was consumed");
        assert!(woken(0) == 1, "the request for the following record is woken, also after a decoding error");
        match st.poll_next::<Fp31>(&mut cx) {
            Poll::Ready(Ok(m)) => assert!(data[1] < 31 && crate::verif_kani::c08_prime::rd31(m) == data[1]),
            Poll::Ready(Err(e)) => {
                assert!(data[1] >= 31);
                std::mem::forget(e);
            }
            Poll::Pending => assert!(false),
        }
        assert!(st.next == next + 2);
        kani::cover!(data[0] >= 31 && data[1] < 31);
        std::mem::forget(st);
    }
}

harness! {
    #[kani::unwind(6)]
    fn x14_receiver_chunk_record_consumed_also_on_error() {
        // same step, but the record arrives in the next chunk of the stream (spare buffer empty, an
        // empty chunk possibly first); the rest of the chunk becomes the spare data.
        // MEASURED: CBMC aborts (status 134) — `Spare::extend` writes through a
        // `GenericArray::default()` buffer, the known crash; disabled.
        let data: &'static [u8; 2] = Box::leak(Box::new(kani::any()));
        let next: usize = 0;
        let empty_first: bool = kani::any();
        let mut st = if empty_first { state(next, Vec::new(), [&[], &data[..]], false) } else { state(next, Vec::new(), [&data[..], &[]], false) };
        st.add_waker(next + 1, &waker(0));
        let w = waker(3);
        let mut cx = Context::from_waker(&w);
        match st.poll_next::<Fp31>(&mut cx) {
            Poll::Ready(Ok(m)) => assert!(data[0] < 31 && crate::verif_kani::c08_prime::rd31(m) == data[0], "record `next` is the next byte of the stream"),
            Poll::Ready(Err(e)) => {
                assert!(data[0] >= 31, "an error only for an undecodable record");
                std::mem::forget(e);
            }
            Poll::Pending => assert!(false, "data is available"),
        }
        assert!(st.next == next + 1, "the record was consumed");
        assert!(woken(0) == 1, "the request for the following record is woken, also after a decoding error");
        match st.poll_next::<Fp31>(&mut cx) {
            Poll::Ready(Ok(m)) => assert!(data[1] < 31 && crate::verif_kani::c08_prime::rd31(m) == data[1]),
            Poll::Ready(Err(e)) => {
                assert!(data[1] >= 31);
                std::mem::forget(e);
            }
            Poll::Pending => assert!(false),
        }
        assert!(st.next == next + 2);
        kani::cover!(data[0] >= 31 && empty_first);
        std::mem::forget(st);
    }
}

harness! {
    #[kani::unwind(6)]
    fn q14_receiver_end_of_stream() {
        let next: usize = kani::any();
        kani::assume(next < 1000);
        let mut st = state(next, Vec::new(), [&[], &[]], false);
        let w = waker(3);
        let mut cx = Context::from_waker(&w);
        match st.poll_next::<Fp31>(&mut cx) {
            Poll::Ready(Err(Error::EndOfStream(EndOfStreamError(r)))) => assert!(usize::from(r) == next),
            other => {
                std::mem::forget(other);
                assert!(false, "end of stream is reported for the record that was being awaited");
            }
        }
        assert!(st.next == next);
        kani::cover!(true);
        std::mem::forget(st);
    }
}

// native replay slot (cargo kani playback): the driver points IPA_VERIF_REPLAY_DIR at a directory
// holding one file per hook; the generated test calls the harness by its path relative to this module.
#[cfg(test)]
mod replay_here {
    use super::*;
    include!(concat!(env!("IPA_VERIF_REPLAY_DIR"), "/unordered_receiver.rs"));
}
