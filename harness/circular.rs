// C14 — hook H2b: `crate::helpers::buffers::circular::verif_kani` (the cursors are private fields).
//
// INDUCTIVE STEP: from an ARBITRARY state satisfying the representation invariant I (any cursor
// positions incl. wrap-around, any contents, open or closed) one arbitrary operation
// (write of a symbolic message / take / close) is executed by the real code, and afterwards
// (1) I holds again and (2) the abstract queue changed exactly as a FIFO byte queue would.
// I holds after `new` (base case, separate harness), so the two together cover operation
// histories of any length for each instantiated (capacity, write size, read size).
use super::*;
use crate::verif_kani::common::*;

macro_rules! circular_step {
    ($modname:ident, $cap:expr, $ws:expr, $rs:expr, $base:ident, $write:ident, $take:ident, $close:ident) => {
        pub(crate) mod $modname {
            use super::*;
            const CAP: usize = $cap;
            const WS: usize = $ws;
            const RS: usize = $rs;

            /// (buffer, ghost length, copy of the data, read cursor)
            fn arbitrary_state() -> (CircularBuf, usize, [u8; CAP], usize, bool) {
                let read: usize = kani::any();
                let write: usize = kani::any();
                let closed: bool = kani::any();
                let data: [u8; CAP] = kani::any();
                kani::assume(read < 2 * CAP && write < 2 * CAP && read % WS == 0 && write % WS == 0);
                let len = (write + 2 * CAP - read) % (2 * CAP);
                kani::assume(len <= CAP);
                let buf = CircularBuf { write, read, read_size: RS, write_size: WS, closed, data: data.to_vec() };
                (buf, len, data, read, closed)
            }
            fn invariant(b: &CircularBuf) -> usize {
                assert!(b.read < 2 * CAP && b.write < 2 * CAP, "cursors stay in [0, 2*capacity)");
                assert!(b.read % WS == 0 && b.write % WS == 0, "cursors stay aligned to the write size");
                assert!(b.data.len() == CAP && b.read_size == RS && b.write_size == WS);
                let len = (b.write + 2 * CAP - b.read) % (2 * CAP);
                assert!(len <= CAP, "never more than capacity bytes queued");
                len
            }
            /// i-th byte of the abstract queue
            fn q(data: &[u8], read: usize, i: usize) -> u8 {
                data[(read + i) % CAP]
            }

            harness! {
                #[kani::unwind(10)]
                fn $base() {
                    let b = CircularBuf::new(CAP, WS, RS);
                    assert!(invariant(&b) == 0 && !b.closed);
                    assert!(b.len() == 0 && !b.can_read() && b.can_write() && b.capacity() == CAP);
                    std::mem::forget(b);
                    kani::cover!(true);
                }
            }

            harness! {
                #[kani::unwind(10)]
                fn $write() {
                    let (mut b, len, old, read, closed) = arbitrary_state();
                    assert!(b.len() == len, "len() is the queue length");
                    assert!(b.can_write() == (!closed && CAP - len >= WS), "can_write iff open and one more message fits");
                    assert!(b.can_read() == ((closed && len > 0) || len >= RS), "can_read iff a full read block, or closed and non-empty");
                    kani::assume(b.can_write());
                    let msg: [u8; WS] = kani::any();
                    b.next().write(&msg[..]);
                    let nlen = invariant(&b);
                    assert!(nlen == len + WS && b.read == read && !b.closed, "a write appends exactly one message");
                    let i: usize = kani::any();
                    kani::assume(i < nlen);
                    let expect = if i < len { q(&old, read, i) } else { msg[i - len] };
                    assert!(q(&b.data, b.read, i) == expect, "queue == old queue ++ message");
                    kani::cover!(read >= CAP);
                    kani::cover!((read % CAP) + len + WS > CAP); // the write wraps around
                    std::mem::forget(b);
                }
            }

            harness! {
                #[kani::unwind(10)]
                fn $take() {
                    let (mut b, len, old, read, closed) = arbitrary_state();
                    let readable = (closed && len > 0) || len >= RS;
                    let out = b.take();
                    let n = if readable { if len < RS { len } else { RS } } else { 0 };
                    assert!(out.len() == n, "take returns read_size bytes, the remainder after close, or nothing");
                    assert!(n % WS == 0, "always whole messages");
                    let nlen = invariant(&b);
                    assert!(nlen == len - n && b.closed == closed);
                    let i: usize = kani::any();
                    if i < n {
                        assert!(out[i] == q(&old, read, i), "the oldest bytes, in order");
                    }
                    let j: usize = kani::any();
                    if j < nlen {
                        assert!(q(&b.data, b.read, j) == q(&old, read, n + j), "the rest of the queue is untouched");
                    }
                    kani::cover!(n > 0 && ((read % CAP) + n > CAP || CAP % RS == 0)); // the read wraps around (when alignment allows it)
                    kani::cover!(closed && n > 0 && (n < RS || WS == RS));
                    kani::cover!(n == 0);
                    std::mem::forget(out);
                    std::mem::forget(b);
                }
            }

            harness! {
                #[kani::unwind(10)]
                fn $close() {
                    let (mut b, len, old, read, closed) = arbitrary_state();
                    kani::assume(!closed);
                    b.close();
                    assert!(b.is_closed() && !b.can_write());
                    assert!(invariant(&b) == len && b.read == read);
                    assert!(b.can_read() == (len > 0), "after close every remainder can be read");
                    let i: usize = kani::any();
                    if i < len {
                        assert!(q(&b.data, b.read, i) == q(&old, read, i));
                    }
                    std::mem::forget(b);
                    kani::cover!(len > 0 && (len < RS || WS == RS));
                }
            }
        }
    };
}

circular_step!(c4_2_2, 4, 2, 2, q14_base, q14_write_step, q14_take_step, q14_close_step);
circular_step!(c4_2_4, 4, 2, 4, q14_base, q14_write_step, q14_take_step, q14_close_step);
circular_step!(c6_2_4, 6, 2, 4, q14_base, q14_write_step, q14_take_step, q14_close_step);
circular_step!(c6_3_3, 6, 3, 3, q14_base, q14_write_step, q14_take_step, q14_close_step);
circular_step!(c3_1_2, 3, 1, 2, q14_base, q14_write_step, q14_take_step, q14_close_step);
circular_step!(c8_2_4, 8, 2, 4, q14_base, q14_write_step, q14_take_step, t14_close_step);
circular_step!(c8_1_8, 8, 1, 8, t14_base, t14_write_step, t14_take_step, t14_close_step);
circular_step!(c16_4_8, 16, 4, 8, t14_base, t14_write_step, t14_take_step, t14_close_step);
circular_step!(c12_3_6, 12, 3, 6, t14_base, t14_write_step, t14_take_step, t14_close_step);

// writing a `Serializable` message (the path OrderingSender uses) stores exactly its wire encoding
harness! {
    #[kani::unwind(10)]
    fn q14_write_serializable_message() {
        use crate::ff::Fp32BitPrime;
        let read: usize = kani::any();
        let len_msgs: usize = kani::any();
        kani::assume(read < 16 && read % 4 == 0 && len_msgs <= 1);
        let write = (read + 4 * len_msgs) % 16;
        let data: [u8; 8] = kani::any();
        let mut b = CircularBuf { write, read, read_size: 4, write_size: 4, closed: false, data: data.to_vec() };
        let v: u32 = kani::any();
        kani::assume(v < 4_294_967_291);
        let m: Fp32BitPrime = unsafe { std::mem::transmute(v) };
        b.next().write(&m);
        assert!(b.len() == 4 * len_msgs + 4);
        let k: usize = kani::any();
        kani::assume(k < 4);
        assert!(b.data[(write % 8) + k] == v.to_le_bytes()[k], "the message's wire encoding is what is queued");
        kani::cover!(write % 8 == 4);
        std::mem::forget(b);
    }
}

// native replay slot (cargo kani playback): the driver points IPA_VERIF_REPLAY_DIR at a directory
// holding one file per hook; the generated test calls the harness by its path relative to this module.
#[cfg(test)]
mod replay_here {
    use super::*;
    include!(concat!(env!("IPA_VERIF_REPLAY_DIR"), "/circular.rs"));
}
