// harness file circular (included under cfg(kani) from /repo)
