// scratch
