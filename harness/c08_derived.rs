// C08 — derived helpers: deferred-reduction accumulators and inversion agree with plain field ops.
use crate::ff::{Field, Fp31, Fp32BitPrime, Fp61BitPrime, MultiplyAccumulate, MultiplyAccumulator, MultiplyAccumulatorArray, PrimeField, batch_invert};
use crate::secret_sharing::SharedValue;
use crate::verif_kani::common::*;
use crate::verif_kani::c08_prime::*;

// The accumulator defers reduction for REDUCE_INTERVAL = 64 products in a u128.  The second
// factor is the constant P-1 (largest element), the first factors are symbolic: the products
// reach the maximum (P-1)^2 without any symbolic-by-symbolic multiplier, and the number of
// accumulated products n is SYMBOLIC in 0..=130 (crosses the reduce interval twice).
macro_rules! accumulate {
    ($scalar:ident, $array:ident, $n:expr, $unw:literal) => {
        harness! {
            #[kani::unwind($unw)]
            #[kani::solver(z3)]
            fn $scalar() {
                let x0: u64 = kani::any();
                let x1: u64 = kani::any();
                kani::assume(u128::from(x0) < P61 && u128::from(x1) < P61);
                let y = mk61((P61 - 1) as u64);
                let mut acc = <Fp61BitPrime as MultiplyAccumulate>::Accumulator::new();
                let mut sum = Fp61BitPrime::ZERO;
                let mut i = 0;
                while i < $n {
                    let x = if i % 2 == 0 { mk61(x0) } else { mk61(x1) };
                    acc.multiply_accumulate(x, y);
                    sum += x * y;
                    i += 1;
                }
                assert!(rd61(acc.take()) == rd61(sum), "accumulate-then-take == fold of plain field ops");
                kani::cover!(x0 == (P61 - 1) as u64 && x1 == (P61 - 1) as u64);
            }
        }
        harness! {
            #[kani::unwind($unw)]
            #[kani::solver(z3)]
            fn $array() {
                let x0: u64 = kani::any();
                let x1: u64 = kani::any();
                kani::assume(u128::from(x0) < P61 && u128::from(x1) < P61);
                let y = mk61((P61 - 1) as u64);
                let mut acc = <Fp61BitPrime as MultiplyAccumulate>::AccumulatorArray::<2>::new();
                let mut sum = [Fp61BitPrime::ZERO; 2];
                let mut i = 0;
                while i < $n {
                    let x = [mk61(x0), mk61(x1)];
                    acc.multiply_accumulate(&x, &[y, y]);
                    sum[0] += x[0] * y;
                    sum[1] += x[1] * y;
                    i += 1;
                }
                let t = acc.take();
                assert!(rd61(t[0]) == rd61(sum[0]) && rd61(t[1]) == rd61(sum[1]), "array accumulate == fold of plain field ops");
                kani::cover!(x0 == (P61 - 1) as u64);
            }
        }
    };
}
// number of accumulated products instantiated around the reduce interval (64)
accumulate!(x08_accumulator_scalar_n64, x08_accumulator_array_n64, 64, 66);
accumulate!(x08_accumulator_scalar_n65, x08_accumulator_array_n65, 65, 67);
accumulate!(x08_accumulator_scalar_n129, x08_accumulator_array_n129, 129, 131);
accumulate!(x08_accumulator_scalar_n1, x08_accumulator_array_n1, 1, 3);

harness! {
    #[kani::unwind(12)]
    fn q08_invert_fp31() {
        // every non-zero element of Fp31: a * invert(a) == 1 (Euclid needs <= 8 steps below 31)
        let a: u8 = kani::any();
        kani::assume(a >= 1 && a < 31);
        let inv = mk31(a).invert();
        assert!(rd31(inv) < 31);
        assert!(rd31(mk31(a) * inv) == 1);
        kani::cover!(true);
    }
}

harness! {
    #[kani::unwind(12)]
    fn q08_batch_invert_single_fp31() {
        // the degenerate batch of one element still inverts it
        let a: u8 = kani::any();
        kani::assume(a >= 1 && a < 31);
        let mut v = [mk31(a)];
        batch_invert(&mut v);
        assert!(rd31(v[0] * mk31(a)) == 1, "batch_invert agrees with invert for a single element");
        kani::cover!(a > 1);
    }
}

harness! {
    #[kani::unwind(12)]
    fn x08_batch_invert_fp31() {
        // batch inversion agrees with element-wise inversion for every triple of non-zero elements
        let raw: [u8; 3] = kani::any();
        kani::assume(raw[0] >= 1 && raw[0] < 31 && raw[1] >= 1 && raw[1] < 31 && raw[2] >= 1 && raw[2] < 31);
        let mut v = [mk31(raw[0]), mk31(raw[1]), mk31(raw[2])];
        batch_invert(&mut v);
        let k: usize = kani::any();
        kani::assume(k < 3);
        assert!(rd31(v[k] * mk31(raw[k])) == 1, "every output is the inverse of its input");
        kani::cover!(true);
    }
}

pub(crate) mod shares {
    use super::*;
    use crate::secret_sharing::replicated::semi_honest::AdditiveShare;
    use crate::secret_sharing::replicated::ReplicatedSecretSharing;

    harness! {
        #[kani::unwind(7)]
        fn q08_replicated_share_arithmetic_is_componentwise() {
            // replicated-share arithmetic agrees with the plain field operations on both components
            let r: [u32; 5] = kani::any();
            let mut i = 0;
            while i < 5 {
                kani::assume(u128::from(r[i]) < P32);
                i += 1;
            }
            let (a, b) = (AdditiveShare::new(mk32(r[0]), mk32(r[1])), AdditiveShare::new(mk32(r[2]), mk32(r[3])));
            let c = mk32(r[4]);
            let s = &a + &b;
            assert!(rd32(s.left()) == rd32(mk32(r[0]) + mk32(r[2])) && rd32(s.right()) == rd32(mk32(r[1]) + mk32(r[3])));
            let d = &a - &b;
            assert!(rd32(d.left()) == rd32(mk32(r[0]) - mk32(r[2])) && rd32(d.right()) == rd32(mk32(r[1]) - mk32(r[3])));
            let n = -&a;
            assert!(rd32(n.left()) == rd32(-mk32(r[0])) && rd32(n.right()) == rd32(-mk32(r[1])));
            let mut e = a.clone();
            e += &b;
            e -= &b;
            assert!(rd32(e.left()) == r[0] && rd32(e.right()) == r[1]);
            assert!(a.as_tuple() == (mk32(r[0]), mk32(r[1])));
            let z = AdditiveShare::<Fp32BitPrime>::ZERO;
            assert!(rd32(z.left()) == 0 && rd32(z.right()) == 0);
            let _ = c;
            kani::cover!(true);
        }
    }

    harness! {
        #[kani::unwind(4)]
        fn q08_replicated_share_scalar_mul() {
            let r: [u32; 3] = kani::any();
            kani::assume(u128::from(r[0]) < P32 && u128::from(r[1]) < P32 && u128::from(r[2]) < (1 << 16));
            let a = AdditiveShare::new(mk32(r[0]), mk32(r[1]));
            let m = &a * mk32(r[2]);
            assert!(rd32(m.left()) == rd32(mk32(r[0]) * mk32(r[2])) && rd32(m.right()) == rd32(mk32(r[1]) * mk32(r[2])), "share * scalar multiplies both components");
            kani::cover!(true);
        }
    }

    harness! {
        #[kani::unwind(19)]
        fn x08_std_array_arithmetic_is_lanewise() {
            // vectorised field arithmetic (StdArray<Fp32BitPrime, 16>): every lane equals the plain field operation
            use crate::secret_sharing::StdArray;
            type Arr = StdArray<Fp32BitPrime, 16>;
            let ra: [u32; 16] = kani::any();
            let rb: [u32; 16] = kani::any();
            let k: usize = kani::any();
            kani::assume(k < 16);
            kani::assume(u128::from(ra[k]) < P32 && u128::from(rb[k]) < P32);
            let c: u32 = kani::any();
            kani::assume(c < (1 << 16));
            // lanes other than k may hold any storage word: only lane k is inspected
            let a: Arr = unsafe { std::mem::transmute(ra) };
            let b: Arr = unsafe { std::mem::transmute(rb) };
            let lane = |x: Arr| -> u32 {
                let raw: [u32; 16] = unsafe { std::mem::transmute::<Arr, [u32; 16]>(x) };
                raw[k]
            };
            assert!(lane(&a + &b) == rd32(mk32(ra[k]) + mk32(rb[k])), "lane-wise add");
            assert!(lane(&a - &b) == rd32(mk32(ra[k]) - mk32(rb[k])), "lane-wise sub");
            assert!(lane(-&a) == rd32(-mk32(ra[k])), "lane-wise neg");
            assert!(lane(&a * mk32(c)) == rd32(mk32(ra[k]) * mk32(c)), "lane-wise scalar mul");
            kani::cover!(true);
        }
    }
}
