// C08 — derived helpers: deferred-reduction accumulators and inversion agree with plain field ops.
use crate::ff::{Field, Fp31, Fp32BitPrime, Fp61BitPrime, MultiplyAccumulate, MultiplyAccumulator, MultiplyAccumulatorArray, PrimeField, batch_invert};
use crate::secret_sharing::SharedValue;
use crate::verif_kani::common::*;
use crate::verif_kani::c08_prime::*;

// The accumulator defers reduction for REDUCE_INTERVAL = 64 products in a u128.  The second
// factor is the constant P-1 (largest element), the first factors are symbolic: the products
// reach the maximum (P-1)^2 without any symbolic-by-symbolic multiplier, and the number of
// accumulated products n is SYMBOLIC in 0..=130 (crosses the reduce interval twice).
macro_rules! accumulate {
    ($scalar:ident, $array:ident, $n:expr, $unw:literal) => {
        harness! {
            #[kani::unwind($unw)]
            #[kani::solver(z3)]
            fn $scalar() {
                let x0: u64 = kani::any();
                let x1: u64 = kani::any();
                kani::assume(u128::from(x0) < P61 && u128::from(x1) < P61);
                let y = mk61((P61 - 1) as u64);
                let mut acc = <Fp61BitPrime as MultiplyAccumulate>::Accumulator::new();
                let mut sum = Fp61BitPrime::ZERO;
                let mut i = 0;
                while i < $n {
                    let x = if i % 2 == 0 { mk61(x0) } else { mk61(x1) };
                    acc.multiply_accumulate(x, y);
                    sum += x * y;
                    i += 1;
                }
                assert!(rd61(acc.take()) == rd61(sum), "accumulate-then-take == fold of plain field ops");
                kani::cover!(x0 == (P61 - 1) as u64 && x1 == (P61 - 1) as u64);
            }
        }
        harness! {
            #[kani::unwind($unw)]
            #[kani::solver(z3)]
            fn $array() {
                let x0: u64 = kani::any();
                let x1: u64 = kani::any();
                kani::assume(u128::from(x0) < P61 && u128::from(x1) < P61);
                let y = mk61((P61 - 1) as u64);
                let mut acc = <Fp61BitPrime as MultiplyAccumulate>::AccumulatorArray::<2>::new();
                let mut sum = [Fp61BitPrime::ZERO; 2];
                let mut i = 0;
                while i < $n {
                    let x = [mk61(x0), mk61(x1)];
                    acc.multiply_accumulate(&x, &[y, y]);
                    sum[0] += x[0] * y;
                    sum[1] += x[1] * y;
                    i += 1;
                }
                let t = acc.take();
                assert!(rd61(t[0]) == rd61(sum[0]) && rd61(t[1]) == rd61(sum[1]), "array accumulate == fold of plain field ops");
                kani::cover!(x0 == (P61 - 1) as u64);
            }
        }
    };
}
// number of accumulated products instantiated around the reduce interval (64)
accumulate!(x08_accumulator_scalar_n64, x08_accumulator_array_n64, 64, 66);
accumulate!(x08_accumulator_scalar_n65, x08_accumulator_array_n65, 65, 67);
accumulate!(x08_accumulator_scalar_n129, x08_accumulator_array_n129, 129, 131);
accumulate!(t08_accumulator_scalar_n1, t08_accumulator_array_n1, 1, 3);

harness! {
    #[kani::unwind(12)]
    fn q08_invert_fp31() {
        // every non-zero element of Fp31: a * invert(a) == 1 (Euclid needs <= 8 steps below 31)
        let a: u8 = kani::any();
        kani::assume(a >= 1 && a < 31);
        let inv = mk31(a).invert();
        assert!(rd31(inv) < 31);
        assert!(rd31(mk31(a) * inv) == 1);
        kani::cover!(true);
    }
}
