// harness file send (included under cfg(kani) from /repo)
