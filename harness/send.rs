// C13 — hook H5: `crate::helpers::gateway::send::verif_kani` (SendChannelConfig::new_with is private).
// Decided: the capacity / read-size arithmetic that the ipa#1300 deadlock-freedom argument rests on.
use std::num::NonZeroUsize;

use super::*;
use crate::helpers::{GatewayConfig, TotalRecords};
use crate::utils::NonZeroU32PowerOfTwo;
use crate::utils::non_zero_prev_power_of_two;
use crate::verif_kani::common::*;

harness! {
    fn q13_power_of_two_type() {
        // the type that carries `active`: constructible exactly from non-zero powers of two that fit u32
        let v: usize = kani::any();
        match NonZeroU32PowerOfTwo::try_from(v) {
            Ok(p) => {
                assert!(v != 0 && v & (v - 1) == 0 && v <= (1usize << 31));
                assert!(p.get() == v && u32::from(p) as usize == v && p.to_non_zero_usize().get() == v);
                kani::cover!(v == 1usize << 31);
            }
            Err(e) => {
                assert!(v == 0 || v & (v - 1) != 0 || v > (1usize << 31));
                std::mem::forget(e);
            }
        }
        kani::cover!(true);
    }
}

harness! {
    fn q13_prev_power_of_two() {
        let t: usize = kani::any();
        let r = non_zero_prev_power_of_two(t);
        assert!(r != 0 && r & (r - 1) == 0, "a power of two");
        if t == 0 {
            assert!(r == 1);
        } else {
            assert!(r <= t && (t >> 1) < r, "largest power of two <= target");
        }
        kani::cover!(t == usize::MAX);
        kani::cover!(true);
    }
}

fn config(active_log2: u32, read_size: usize) -> GatewayConfig {
    GatewayConfig {
        active: NonZeroU32PowerOfTwo::try_from(1usize << active_log2).unwrap(),
        read_size: NonZeroUsize::new(read_size).unwrap(),
        ..Default::default()
    }
}

// Symbolic division by a symbolic record size did not finish (cadical, z3: > 300 s); the record
// size is therefore instantiated (sizes of the message types used in the crate plus odd ones),
// while the active window, the configured read size and the total-records kind stay symbolic.
macro_rules! send_config {
    ($name:ident, $record:expr) => {
        harness! {
            fn $name() {
                let record: usize = $record;
                let k: u32 = kani::any();
                kani::assume(k <= 20);
                let read: usize = kani::any();
                kani::assume(read >= 1 && read <= (1 << 24));
                let which: u8 = kani::any();
                kani::assume(which < 3);
                let n: usize = kani::any();
                kani::assume(n >= 1);
                let total = match which {
                    0 => TotalRecords::Specified(NonZeroUsize::new(n).unwrap()),
                    1 => TotalRecords::Indeterminate,
                    _ => TotalRecords::Unspecified,
                };
                let active = 1usize << k;
                let c = SendChannelConfig::new_with(config(k, read), total, record); // must not panic
                let cap = c.total_capacity.get();
                let rs = c.read_size.get();
                assert!(c.record_size.get() == record);
                assert!(cap == active * record, "capacity holds exactly the active window");
                // read size is record * 2^j for some j <= k, hence divides the capacity
                let mut ok = false;
                let mut j = 0u32;
                while j <= 20 {
                    if j <= k && rs == record << j {
                        ok = true;
                    }
                    j += 1;
                }
                assert!(ok, "read size is record_size times a power of two not above the active window");
                if which == 1 {
                    assert!(rs == record, "indeterminate totals flush record by record");
                } else {
                    assert!(rs <= std::cmp::max(record, read), "not above the configured read size (unless one record is larger)");
                    assert!(rs == cap || 2 * rs > read, "as close to the target as a power-of-two multiple allows");
                }
                kani::cover!(which == 1);
                kani::cover!(rs == cap && k > 0);
                kani::cover!(true);
            }
        }
    };
}
send_config!(q13_send_channel_config_r1, 1);
send_config!(q13_send_channel_config_r2, 2);
send_config!(q13_send_channel_config_r3, 3);
send_config!(q13_send_channel_config_r8, 8);
send_config!(q13_send_channel_config_r14, 14);
send_config!(q13_send_channel_config_r16, 16);
send_config!(q13_send_channel_config_r20, 20);
send_config!(q13_send_channel_config_r32, 32);
send_config!(q13_send_channel_config_r4095, 4095);
send_config!(q13_send_channel_config_r4096, 4096);

// "A channel closes exactly when its declared record count has been sent": the closing decision
// (`is_last`) and the declared count itself.
harness! {
    fn q13_total_records_last_record_and_count() {
        use crate::protocol::RecordId;
        let n: usize = kani::any();
        let r: u32 = kani::any();
        match TotalRecords::specified(n) {
            Ok(t) => {
                assert!(n >= 1, "a zero record count is refused");
                assert!(t.count() == Some(n) && t.is_specified() && !t.is_indeterminate());
                assert!(t.is_last(RecordId::from(r)) == (r as usize == n - 1), "exactly the last declared record closes the channel");
            }
            Err(e) => {
                assert!(n == 0);
                std::mem::forget(e);
            }
        }
        assert!(!TotalRecords::Indeterminate.is_last(RecordId::from(r)) && !TotalRecords::Unspecified.is_last(RecordId::from(r)));
        assert!(TotalRecords::Indeterminate.count().is_none() && TotalRecords::Unspecified.count().is_none());
        assert!(TotalRecords::Indeterminate.is_specified() && !TotalRecords::Unspecified.is_specified());
        assert!(TotalRecords::ONE.count() == Some(1));
        kani::cover!(n == 0);
        kani::cover!(n > 1 && r as usize == n - 1);
    }
}

harness! {
    fn q13_total_records_overwrite() {
        // Unspecified accepts any value; Specified may only become Indeterminate
        let n: usize = kani::any();
        kani::assume(n >= 1);
        let spec = TotalRecords::Specified(NonZeroUsize::new(n).unwrap());
        let a = TotalRecords::Unspecified.overwrite(spec);
        assert!(a.count() == Some(n));
        let b = TotalRecords::Unspecified.overwrite(TotalRecords::Indeterminate);
        assert!(b.is_indeterminate());
        let c = spec.overwrite(TotalRecords::Indeterminate);
        assert!(c.is_indeterminate());
        kani::cover!(true);
    }
}

harness! {
    fn q13_total_records_redeclare_mustpanic() {
        // a channel's declared record count cannot be silently replaced by another count (the channel
        // would close at the wrong record): the attempt must be refused loudly
        let (a, b): (usize, usize) = (kani::any(), kani::any());
        kani::assume(a >= 1 && b >= 1);
        let old = TotalRecords::Specified(NonZeroUsize::new(a).unwrap());
        let new: TotalRecords = if kani::any() { TotalRecords::Specified(NonZeroUsize::new(b).unwrap()) } else { TotalRecords::Unspecified };
        kani::cover!(true);
        let r = old.overwrite(new);
        std::mem::forget(r);
        assert!(false, "MUST NOT RETURN: a declared record count was replaced");
    }
}

harness! {
    fn q13_active_work_from_query_size() {
        // the active window derived from the query size: a power of two in [2, default], at least the
        // input size when that is below the default, and never a panic for any admissible size
        use crate::ff::FieldType;
        use crate::helpers::query::{QueryConfig, QueryType};
        let size: u32 = kani::any();
        let qc = match QueryConfig::new(QueryType::TestMultiply, FieldType::Fp32BitPrime, size) {
            Ok(c) => c,
            Err(e) => {
                std::mem::forget(e);
                kani::assume(false);
                unreachable!()
            }
        };
        let mut g = GatewayConfig::default();
        let dflt = g.active_work().get();
        g.set_active_work_from_query_config(&qc);
        let a = g.active_work().get();
        assert!(a & (a - 1) == 0 && a >= 2, "active work is a power of two, at least 2");
        assert!(a <= dflt, "never above the default window");
        assert!(a >= std::cmp::min(size as usize, dflt), "covers the whole input when it is smaller than the default window");
        assert!(a < 2 * std::cmp::max(2, size as usize), "and is the smallest such power of two");
        kani::cover!(size == 1);
        kani::cover!(size as usize > dflt);
    }
}

// "sending beyond the count is an error": the record-count check at the top of GatewaySender::send,
// observed through the first poll of the real future over a real OrderingSender.
harness! {
    #[kani::unwind(10)]
    fn x13_send_beyond_total_is_an_error() {
        use std::future::Future;
        use std::pin::pin;
        use std::task::{Context, Poll, Waker};
        use crate::ff::Fp31;
        use crate::helpers::{ChannelId, Role};
        use crate::protocol::{Gate, RecordId};
        let total: usize = kani::any();
        kani::assume(total >= 1 && total <= 4);
        let one = NonZeroUsize::new(1).unwrap();
        let tx = OrderingSender::new(NonZeroUsize::new(4).unwrap(), one, one);
        let sender = GatewaySender::<Role>::new(
            ChannelId { peer: Role::H2, gate: Gate::default() },
            tx,
            TotalRecords::Specified(NonZeroUsize::new(total).unwrap()),
        );
        let r: usize = kani::any();
        // the in-range branch goes on into OrderingSender::send (8 mutex shards, wakers): > 300 s;
        // this harness therefore covers exactly the out-of-range half of the check
        kani::assume(r >= total && r <= 8);
        let msg = crate::verif_kani::c08_prime::mk31(3);
        let waker = Waker::noop();
        let mut cx = Context::from_waker(&waker);
        let mut fut = pin!(sender.send::<Fp31, Fp31>(RecordId::from(r), msg));
        match fut.as_mut().poll(&mut cx) {
            Poll::Ready(Err(e)) => {
                assert!(r >= total, "in-range records are not refused");
                match &e {
                    Error::TooManyRecords { record_id, .. } => assert!(usize::from(*record_id) == r),
                    _ => assert!(false, "the error names the offending record"),
                }
                std::mem::forget(e);
            }
            Poll::Ready(Ok(())) => assert!(r < total && r == 0, "only record 0 can complete at once: records are sent in order"),
            Poll::Pending => assert!(r < total && r > 0, "a record beyond the declared total is never queued"),
        }
        kani::cover!(r == total);
        kani::cover!(r == 0);
    }
}

// The boundary of the same check, phrased so that the symbolic executor can prune the in-range path:
// the record id IS the declared total (one symbolic 32-bit value feeds both), hence `id >= total`
// simplifies to true before OrderingSender::send is ever encoded.  MEASURED: still > 600 s (the pruning
// does not happen through the async state machine), so this stays a disabled experiment.
harness! {
    #[kani::unwind(10)]
    fn x13_send_record_equal_to_total_is_refused() {
        use std::future::Future;
        use std::pin::pin;
        use std::task::{Context, Poll, Waker};
        use crate::ff::Fp31;
        use crate::helpers::{ChannelId, Role};
        use crate::protocol::{Gate, RecordId};
        let t: u32 = kani::any();
        kani::assume(t >= 1);
        let total = match NonZeroUsize::new(t as usize) {
            Some(n) => n,
            None => {
                kani::assume(false);
                unreachable!()
            }
        };
        let one = NonZeroUsize::new(1).unwrap();
        let tx = OrderingSender::new(NonZeroUsize::new(4).unwrap(), one, one);
        let sender = GatewaySender::<Role>::new(ChannelId { peer: Role::H2, gate: Gate::default() }, tx, TotalRecords::Specified(total));
        let msg = crate::verif_kani::c08_prime::mk31(3);
        let waker = Waker::noop();
        let mut cx = Context::from_waker(&waker);
        let mut fut = pin!(sender.send::<Fp31, Fp31>(RecordId::from(t), msg));
        match fut.as_mut().poll(&mut cx) {
            Poll::Ready(Err(e)) => {
                match &e {
                    Error::TooManyRecords { record_id, .. } => assert!(*record_id == RecordId::from(t), "the error names the offending record"),
                    _ => assert!(false, "TooManyRecords is the error"),
                }
                std::mem::forget(e);
                kani::cover!(t == 1);
                kani::cover!(t > 1_000_000);
            }
            _ => assert!(false, "record id == declared total must be refused"),
        }
    }
}

// "what the peer's receive for record i returns is the message sent for record i", transport side:
// the byte stream handed to the receiver (`LogErrors` over the transport's chunk stream) forwards
// every chunk unchanged and ENDS at the first transport error — it never resumes with later chunks,
// which would shift every following record.  One adapter step for each kind of next inner item.
pub(crate) mod log_errors {
    use super::*;
    use crate::helpers::transport::LogErrors;
    use futures::Stream;
    use std::pin::Pin;
    use std::task::{Context, Poll, Waker};

    #[derive(Debug)]
    pub(crate) struct TransportDown;
    impl std::fmt::Display for TransportDown {
        fn fmt(&self, _f: &mut std::fmt::Formatter<'_>) -> std::fmt::Result {
            Ok(())
        }
    }
    impl std::error::Error for TransportDown {}

    /// inner stream: item kinds 0 = Pending, 1 = Ok(2-byte chunk), 2 = Err, 3 = end of stream
    pub(crate) struct Script {
        kinds: [u8; 2],
        data: [[u8; 2]; 2],
        pos: usize,
    }
    impl Stream for Script {
        type Item = Result<Vec<u8>, TransportDown>;
        fn poll_next(mut self: Pin<&mut Self>, _cx: &mut Context<'_>) -> Poll<Option<Self::Item>> {
            let k = if self.pos < 2 { self.kinds[self.pos] } else { 3 };
            let d = if self.pos < 2 { self.data[self.pos] } else { [0, 0] };
            self.pos += 1;
            match k {
                0 => Poll::Pending,
                1 => {
                    let mut v = Vec::with_capacity(2);
                    v.push(d[0]);
                    v.push(d[1]);
                    Poll::Ready(Some(Ok(v)))
                }
                2 => Poll::Ready(Some(Err(TransportDown))),
                _ => Poll::Ready(None),
            }
        }
    }

    harness! {
        #[kani::unwind(5)]
        fn q13_log_errors_ends_stream_at_transport_error() {
            let kinds: [u8; 2] = kani::any();
            let data: [[u8; 2]; 2] = kani::any();
            kani::assume(kinds[0] <= 3 && kinds[1] <= 3);
            let mut s = LogErrors::new(Script { kinds, data, pos: 0 });
            let waker = Waker::noop();
            let mut cx = Context::from_waker(&waker);
            let r = Pin::new(&mut s).poll_next(&mut cx);
            match (&r, kinds[0]) {
                (Poll::Pending, 0) => {}
                (Poll::Ready(Some(v)), 1) => assert!(v.len() == 2 && v[0] == data[0][0] && v[1] == data[0][1], "a chunk is forwarded unchanged"),
                (Poll::Ready(None), 2) => {} // the error ends the stream
                (Poll::Ready(None), 3) => {}
                _ => assert!(false, "one inner item per poll: Pending / chunk / end (also at a transport error)"),
            }
            kani::cover!(kinds[0] == 2 && kinds[1] == 1);
            kani::cover!(kinds[0] == 1);
            std::mem::forget(r);
            std::mem::forget(s);
        }
    }
}

// native replay slot (cargo kani playback): the driver points IPA_VERIF_REPLAY_DIR at a directory
// holding one file per hook; the generated test calls the harness by its path relative to this module.
#[cfg(test)]
mod replay_here {
    use super::*;
    include!(concat!(env!("IPA_VERIF_REPLAY_DIR"), "/send.rs"));
}
