// C15 — seq_join(w, stream): in-order results, a full window in flight, every in-flight task polled.
// Tasks are harness futures whose readiness is flipped by the solver before every poll
// (adversarial, monotone completion order); the source stream hands out N tasks.
use std::future::Future;
use std::num::NonZeroUsize;
use std::pin::Pin;
use std::task::{Context, Poll, Waker};

use futures::Stream;

use crate::seq_join::seq_join;
use crate::verif_kani::common::*;

const MAXN: usize = 4;
static mut READY: [bool; MAXN] = [false; MAXN];
static mut POLLS: [usize; MAXN] = [0; MAXN];
static mut HANDED: usize = 0;

pub(crate) struct Task(usize);
impl Future for Task {
    type Output = usize;
    fn poll(self: Pin<&mut Self>, _cx: &mut Context<'_>) -> Poll<usize> {
        unsafe {
            POLLS[self.0] += 1;
            if READY[self.0] { Poll::Ready(self.0) } else { Poll::Pending }
        }
    }
}
pub(crate) struct Source(usize);
impl Stream for Source {
    type Item = Task;
    fn poll_next(self: Pin<&mut Self>, _cx: &mut Context<'_>) -> Poll<Option<Task>> {
        unsafe {
            if HANDED < self.0 {
                HANDED += 1;
                Poll::Ready(Some(Task(HANDED - 1)))
            } else {
                Poll::Ready(None)
            }
        }
    }
}

macro_rules! seq_join_schedule {
    ($name:ident, $n:expr, $w:expr, $polls:expr, $unw:literal) => {
        harness! {
            #[kani::unwind($unw)]
            fn $name() {
                const N: usize = $n;
                const W: usize = $w;
                let mut s = seq_join(NonZeroUsize::new(W).unwrap(), Source(N));
                let waker = Waker::noop();
                let mut cx = Context::from_waker(&waker);
                let mut produced = 0usize;
                let mut finished = false;
                let mut p = 0;
                while p < $polls {
                    // the adversary completes any subset of tasks (monotone)
                    let mut i = 0;
                    while i < N {
                        if kani::any() {
                            unsafe { READY[i] = true };
                        }
                        i += 1;
                    }
                    let before = unsafe { POLLS };
                    let r = Pin::new(&mut s).poll_next(&mut cx);
                    let handed = unsafe { HANDED };
                    match r {
                        Poll::Ready(Some(v)) => {
                            assert!(!finished && v == produced, "results come out in input order, each exactly once");
                            assert!(unsafe { READY[v] }, "only a completed task yields a result");
                            produced += 1;
                        }
                        Poll::Ready(None) => {
                            assert!(produced == N, "the output ends only after every task's result");
                            finished = true;
                        }
                        Poll::Pending => {
                            assert!(!finished && produced < N);
                            assert!(!unsafe { READY[produced] }, "Pending only while the head task is not ready");
                            // a full window is in flight while input remains ...
                            let want = if N - produced < W { N - produced } else { W };
                            assert!(handed - produced >= want, "at least w tasks are kept in flight while input remains");
                            // ... and every in-flight task was polled in this call
                            let mut j = produced;
                            while j < handed {
                                assert!(unsafe { POLLS[j] } > before[j] || unsafe { READY[j] } , "every started unfinished task is polled");
                                j += 1;
                            }
                        }
                    }
                    assert!(handed <= produced + W + 1, "never more than the window (plus the one just taken) is started");
                    p += 1;
                }
                kani::cover!(finished);
                kani::cover!(produced == 1 && unsafe { READY[N - 1] });
                std::mem::forget(s);
            }
        }
    };
}

seq_join_schedule!(t15_seq_join_n2_w1, 2, 1, 4, 6);
seq_join_schedule!(t15_seq_join_n2_w2, 2, 2, 4, 6);
seq_join_schedule!(t15_seq_join_n3_w2, 3, 2, 5, 7);
seq_join_schedule!(t15_seq_join_n3_w1, 3, 1, 5, 7);
seq_join_schedule!(t15_seq_join_n3_w3, 3, 3, 5, 7);
seq_join_schedule!(t15_seq_join_n4_w2, 4, 2, 6, 8);
