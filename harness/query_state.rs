// C18 — hook in query/state.rs (`crate::query::state::verif_kani`): status lattice, transition
// table and the RunningQueries store under symbolic histories of store operations.
use super::*;
use crate::ff::{FieldType, Fp32BitPrime};
use crate::helpers::query::{QueryConfig, QueryType};
use crate::helpers::{HelperIdentity, RoleAssignment};
use crate::verif_kani::common::*;

fn status_of(k: u8) -> QueryStatus {
    match k % 5 {
        0 => QueryStatus::Preparing,
        1 => QueryStatus::AwaitingInputs,
        2 => QueryStatus::Running,
        3 => QueryStatus::AwaitingCompletion,
        _ => QueryStatus::Completed,
    }
}
fn rank(s: QueryStatus) -> u8 {
    match s {
        QueryStatus::Preparing => 0,
        QueryStatus::AwaitingInputs => 1,
        QueryStatus::Running => 2,
        QueryStatus::AwaitingCompletion => 3,
        QueryStatus::Completed => 4,
    }
}

harness! {
    fn q18_min_status_is_the_meet() {
        let (a, b, c): (u8, u8, u8) = (kani::any(), kani::any(), kani::any());
        let (x, y, z) = (status_of(a), status_of(b), status_of(c));
        let m = min_status(x, y);
        assert!(rank(m) == std::cmp::min(rank(x), rank(y)), "least advanced status");
        assert!(min_status(y, x) == m, "commutative");
        assert!(min_status(x, x) == x, "idempotent");
        assert!(min_status(min_status(x, y), z) == min_status(x, min_status(y, z)), "associative");
        kani::cover!(rank(x) > rank(y));
        kani::cover!(true);
    }
}

fn config() -> QueryConfig {
    // no unwrap(): the Debug formatting of the error type would be pulled into the model
    match QueryConfig::new(QueryType::TestMultiply, FieldType::Fp32BitPrime, 1u32) {
        Ok(c) => c,
        Err(e) => {
            std::mem::forget(e);
            kani::assume(false);
            unreachable!()
        }
    }
}
fn roles() -> RoleAssignment {
    RoleAssignment::new(HelperIdentity::make_three())
}
/// The constructible states (Running needs a tokio JoinHandle and is out of reach of the solver;
/// rank 2 is therefore never a *target* below, see `running_placeholder`).
fn state_of(k: u8) -> (QueryState, u8) {
    // Completed(Box<dyn ProtocolResult>) is left out as well: dropping the trait object inside
    // `transition` drags every vtable candidate (`to_bytes`, ...) into the model (> 300 s).
    match k % 4 {
        0 => (QueryState::Empty, 0),
        1 => (QueryState::Preparing(config()), 1),
        2 => (QueryState::AwaitingInputs(config(), roles()), 2),
        _ => (QueryState::AwaitingCompletion, 4),
    }
}
fn kind(s: &QueryState) -> u8 {
    match s {
        QueryState::Empty => 0,
        QueryState::Preparing(_) => 1,
        QueryState::AwaitingInputs(_, _) => 2,
        QueryState::Running(_) => 3,
        QueryState::AwaitingCompletion => 4,
        QueryState::Completed(_) => 5,
    }
}

harness! {
    #[kani::unwind(4)]
    fn q18_transition_table() {
        // Ok exactly on Empty -> {Preparing, AwaitingInputs} and Preparing -> AwaitingInputs
        // (among the constructible states); the right error otherwise; never backwards.
        let (a, b): (u8, u8) = (kani::any(), kani::any());
        let (cur, ck) = state_of(a);
        let (new, nk) = state_of(b);
        kani::assume(nk != 0); // Empty is never a target
        // (Empty, AwaitingCompletion|Completed) panics inside `From<&QueryState> for QueryStatus` (documented:
        // "Query cannot be in the empty state"); no Processor API installs those on an unknown query.
        kani::assume(!(ck == 0 && nk >= 4));
        let allowed = (ck == 0 && (nk == 1 || nk == 2)) || (ck == 1 && nk == 2);
        match QueryState::transition(&cur, new) {
            Ok(s) => {
                assert!(allowed, "only the documented transitions succeed");
                assert!(kind(&s) == nk, "the new state is installed");
                assert!(nk > ck, "never backwards");
                std::mem::forget(s);
                kani::cover!(true);
            }
            Err(e) => {
                assert!(!allowed, "documented transitions are accepted");
                match &e {
                    StateError::AlreadyRunning => assert!(nk == 1),
                    StateError::InvalidState { from, to } => {
                        assert!(ck != 0, "Empty has no status to report");
                        assert!(nk != 1);
                        assert!(*from == QueryStatus::from(&cur));
                        assert!(rank(*to) + 1 == nk);
                    }
                }
                std::mem::forget(e);
                kani::cover!(true);
            }
        }
        std::mem::forget(cur);
    }
}

harness! {
    #[kani::unwind(4)]
    fn q18_reported_status_is_the_state() {
        // the status a helper reports is the state it is in (for every constructible state)
        let k: u8 = kani::any();
        let (st, kd) = state_of(k);
        kani::assume(kd != 0); // Empty has no status (documented panic)
        let reported = QueryStatus::from(&st);
        let expect = match kd {
            1 => QueryStatus::Preparing,
            2 => QueryStatus::AwaitingInputs,
            _ => QueryStatus::AwaitingCompletion,
        };
        assert!(reported == expect, "no state is reported as another one");
        kani::cover!(kd == 4);
        std::mem::forget(st);
    }
}

fn status_rank(s: Option<QueryStatus>) -> u8 {
    match s {
        None => 0,
        Some(x) => rank(x) + 1,
    }
}

harness! {
    #[kani::unwind(6)]
    fn x18_store_history() {
        // symbolic history of 2 store operations on one RunningQueries:
        //  0..=3: set_state(target), 4: remove_query_on_drop + drop, 5: remove_query_on_drop + restore
        let queries = RunningQueries::default();
        let h = queries.handle(crate::protocol::QueryId);
        let mut prev = status_rank(h.status());
        assert!(prev == 0, "unknown query has no status");
        let mut step = 0;
        while step < 2 {
            let op: u8 = kani::any();
            kani::assume(op < 6);
            if op < 4 {
                let (target, nk) = state_of(op);
                kani::assume(nk != 0 && !(prev == 0 && nk >= 4));
                let before = status_rank(h.status());
                match h.set_state(target) {
                    Ok(()) => {
                        let after = status_rank(h.status());
                        assert!(after > before, "a successful transition moves forward");
                    }
                    Err(e) => {
                        std::mem::forget(e);
                        assert!(status_rank(h.status()) == before, "a rejected request leaves the state unchanged");
                    }
                }
            } else if op == 4 {
                let g = h.remove_query_on_drop();
                drop(g);
                assert!(h.status().is_none(), "a dropped guard leaves no trace");
            } else {
                let before = status_rank(h.status());
                let g = h.remove_query_on_drop();
                g.restore();
                assert!(status_rank(h.status()) == before, "restore keeps the entry");
            }
            let now = status_rank(h.status());
            assert!(now >= prev || now == 0, "status only moves forward until the query is forgotten");
            prev = now;
            step += 1;
        }
        kani::cover!(prev == 2);
        std::mem::forget(queries);
    }
}

// native replay slot (cargo kani playback): the driver points IPA_VERIF_REPLAY_DIR at a directory
// holding one file per hook; the generated test calls the harness by its path relative to this module.
#[cfg(test)]
mod replay_here {
    use super::*;
    include!(concat!(env!("IPA_VERIF_REPLAY_DIR"), "/query_state.rs"));
}
