// Shared support for every Kani harness (included once, from root.rs, as
// `crate::verif_kani::common`).  Everything in here is part of the trusted base
// of every check and is listed as such in the evidence files.

/// Stubs (see DESIGN.md §1).  Logging and string formatting are outside every claim.
pub(crate) mod stubs {
    pub fn interest_never(_cs: &tracing::callsite::DefaultCallsite) -> tracing::subscriber::Interest {
        tracing::subscriber::Interest::never()
    }
    pub fn is_enabled_false(
        _meta: &tracing::Metadata<'static>,
        _interest: tracing::subscriber::Interest,
    ) -> bool {
        false
    }
    pub fn dispatch_nop<'a>(_meta: &'static tracing::Metadata<'static>, _fields: &'a tracing::field::ValueSet<'a>)
    where
        'a: 'a,
    {
    }
    pub fn level_off() -> tracing::level_filters::LevelFilter {
        tracing::level_filters::LevelFilter::OFF
    }
    pub fn format_empty(_args: std::fmt::Arguments<'_>) -> String {
        String::new()
    }
    /// `Result::unwrap`/`expect` failure: still a panic, but without formatting the error value.
    pub fn unwrap_failed_plain(_msg: &str, _error: &dyn std::fmt::Debug) -> ! {
        panic!("called `Result::unwrap()` on an `Err` value")
    }
}

/// `harness! { #[kani::unwind(9)] fn name() { ... } }` expands to a `#[kani::proof]`
/// carrying the five stubs that every harness needs.
macro_rules! harness {
    ($(#[$m:meta])* fn $name:ident() $body:block) => {
        #[kani::proof]
        #[kani::stub(tracing::callsite::DefaultCallsite::interest, crate::verif_kani::common::stubs::interest_never)]
        #[kani::stub(tracing::__macro_support::__is_enabled, crate::verif_kani::common::stubs::is_enabled_false)]
        #[kani::stub(tracing::Event::dispatch, crate::verif_kani::common::stubs::dispatch_nop)]
        #[kani::stub(tracing::level_filters::LevelFilter::current, crate::verif_kani::common::stubs::level_off)]
        #[kani::stub(alloc::fmt::format, crate::verif_kani::common::stubs::format_empty)]
        #[kani::stub(core::result::unwrap_failed, crate::verif_kani::common::stubs::unwrap_failed_plain)]
        $(#[$m])*
        pub(crate) fn $name() $body
    };
}
pub(crate) use harness;

/// A `GenericArray` view over plain memory (writes through `GenericArray::default()`
/// crash CBMC 6.11, DESIGN.md §1).
macro_rules! ga {
    ($arr:expr) => {
        generic_array::GenericArray::from_slice(&$arr[..])
    };
}
macro_rules! ga_mut {
    ($arr:expr) => {
        generic_array::GenericArray::from_mut_slice(&mut $arr[..])
    };
}
pub(crate) use ga;
pub(crate) use ga_mut;

/// Waker that raises a flag (for poll-level harnesses).
pub(crate) mod wake {
    use std::{
        sync::{
            Arc,
            atomic::{AtomicUsize, Ordering},
        },
        task::{Wake, Waker},
    };

    pub struct CountWaker(pub AtomicUsize);
    impl Wake for CountWaker {
        fn wake(self: Arc<Self>) {
            self.0.fetch_add(1, Ordering::SeqCst);
        }
        fn wake_by_ref(self: &Arc<Self>) {
            self.0.fetch_add(1, Ordering::SeqCst);
        }
    }
    pub fn count_waker() -> (Arc<CountWaker>, Waker) {
        let a = Arc::new(CountWaker(AtomicUsize::new(0)));
        (Arc::clone(&a), Waker::from(Arc::clone(&a)))
    }
    pub fn count(a: &Arc<CountWaker>) -> usize {
        a.0.load(Ordering::SeqCst)
    }
}

/// Allocation-free wakers: waker k increments WOKEN[k] (cheaper for CBMC than Arc-based wakers).
pub(crate) mod rawwake {
    use std::task::{RawWaker, RawWakerVTable, Waker};
    pub static mut WOKEN: [usize; 4] = [0; 4];
    unsafe fn clone(p: *const ()) -> RawWaker {
        RawWaker::new(p, &VTABLE)
    }
    unsafe fn wake(p: *const ()) {
        unsafe { WOKEN[p as usize - 1] += 1 };
    }
    unsafe fn drop(_p: *const ()) {}
    static VTABLE: RawWakerVTable = RawWakerVTable::new(clone, wake, wake, drop);
    /// waker number k in 0..4 (the data pointer is just the tag k+1)
    pub fn waker(k: usize) -> Waker {
        unsafe { Waker::from_raw(RawWaker::new((k + 1) as *const (), &VTABLE)) }
    }
    pub fn woken(k: usize) -> usize {
        unsafe { WOKEN[k] }
    }
}
