// C10 (parser totality) and C11 (duplicate-detection kernel) on report::hybrid.
//
// The encrypted record is a `Bytes::from_static` view of a leaked symbolic buffer with a
// SYMBOLIC length, so "every byte string of every length 0..=MAX" is one solver query.
use bytes::Bytes;
use typenum::Unsigned;

use crate::ff::boolean_array::{BA3, BA8, BA64};
use crate::ff::Serializable;
use crate::hpke::{CryptError, EncapsulationSize, IpaPrivateKey, PrivateKeyRegistry, TagSize};
use crate::report::hybrid::{
    EncryptedHybridConversionReport, EncryptedHybridImpressionReport, EncryptedHybridReport, InvalidHybridReportError,
    KeyIdentifier, UniqueBytes, UniqueTag, UniqueTagValidator,
};
use crate::secret_sharing::replicated::semi_honest::AdditiveShare as Replicated;
use crate::sharding::ShardIndex;
use crate::verif_kani::common::*;

type Enc = EncryptedHybridReport<BA8, BA3>;

/// Minimum record length after the event-type byte, computed from the sizes the code exports
/// (two encapsulated keys, two AEAD tags, the match-key share, the 2-byte second share, key id).
pub(crate) fn min_len() -> usize {
    2 * EncapsulationSize::USIZE + 2 * TagSize::USIZE + Replicated::<BA64>::size() + Replicated::<BA8>::size() + 1
}
pub(crate) const MAX: usize = 1 + 115 + 30;

pub(crate) fn symbolic_record() -> (&'static [u8; MAX], usize, Bytes) {
    let buf: &'static [u8; MAX] = Box::leak(Box::new(kani::any()));
    let len: usize = kani::any();
    kani::assume(len <= MAX);
    (buf, len, Bytes::from_static(&buf[..len]))
}

pub(crate) mod c10 {
    use super::*;

    harness! {
        #[kani::unwind(3)]
        fn q10_from_bytes_total() {
            assert!(Replicated::<BA3>::size() == Replicated::<BA8>::size());
            let (buf, len, bytes) = symbolic_record();
            match Enc::from_bytes(bytes) {
                Ok(r) => {
                    assert!(len >= 1 && buf[0] <= 1, "accepted only with a valid event type");
                    assert!(len - 1 >= min_len(), "accepted only at or above the minimum length");
                    match &r {
                        EncryptedHybridReport::Impression(_) => assert!(buf[0] == 0),
                        EncryptedHybridReport::Conversion(_) => assert!(buf[0] == 1),
                    }
                    std::mem::forget(r);
                    kani::cover!(len - 1 == min_len());
                }
                Err(e) => {
                    assert!(len == 0 || buf[0] > 1 || len - 1 < min_len(), "rejected only when malformed");
                    match &e {
                        InvalidHybridReportError::UnknownEventType(t) => assert!(len >= 1 && *t == buf[0] && buf[0] > 1),
                        InvalidHybridReportError::Length(_, _) => assert!(len == 0 || len - 1 < min_len()),
                        _ => {} // any other error value is acceptable: the property only demands an error
                    }
                    std::mem::forget(e);
                    kani::cover!(len == 0);
                    kani::cover!(len == min_len());
                }
            }
            kani::cover!(true);
        }
    }

    harness! {
        #[kani::unwind(3)]
        fn q10_try_from_agrees() {
            let (_buf, _len, bytes) = symbolic_record();
            let a = Enc::try_from(bytes.clone());
            let b = Enc::from_bytes(bytes);
            assert!(a.is_ok() == b.is_ok());
            std::mem::forget(a);
            std::mem::forget(b);
            kani::cover!(true);
        }
    }

    harness! {
        #[kani::unwind(3)]
        fn q10_accessors_in_bounds() {
            // every accessor of every accepted record stays inside the record and returns the
            // advertised field (offsets relative to the byte after the event type)
            let (buf, len, bytes) = symbolic_record();
            if let Ok(r) = Enc::from_bytes(bytes) {
                let e = EncapsulationSize::USIZE;
                let t = TagSize::USIZE;
                let mk = t + Replicated::<BA64>::size();
                let btt = t + Replicated::<BA8>::size();
                let i: usize = kani::any();
                let s = r.encap_key_mk();
                assert!(s.len() == e);
                kani::assume(i < e);
                assert!(s[i] == buf[1 + i]);
                let s = r.mk_ciphertext();
                assert!(s.len() == mk);
                let j: usize = kani::any();
                kani::assume(j < mk);
                assert!(s[j] == buf[1 + e + j]);
                let s = r.encap_key_btt();
                assert!(s.len() == e);
                assert!(s[i] == buf[1 + e + mk + i]);
                let s = r.btt_ciphertext();
                assert!(s.len() == btt);
                let k: usize = kani::any();
                kani::assume(k < btt);
                assert!(s[k] == buf[1 + 2 * e + mk + k]);
                assert!(r.key_id() == buf[1 + 2 * e + mk + btt]);
                std::mem::forget(r);
                kani::cover!(len == 1 + min_len());
            }
            kani::cover!(true);
        }
    }

    // ---- decrypt: totality with the AEAD replaced by its contract -------------------------
    pub(crate) struct OneKey(pub Option<&'static IpaPrivateKey>);
    impl PrivateKeyRegistry for OneKey {
        fn private_key(&self, _key_id: KeyIdentifier) -> Option<&IpaPrivateKey> {
            self.0
        }
    }
    /// Contract of HPKE open under attacker-controlled input: either an error, or some
    /// plaintext occupying the ciphertext buffer minus the tag (contents arbitrary = the
    /// symbolic record bytes already there).
    pub(crate) fn open_in_place_stub<'a>(
        _sk: &IpaPrivateKey,
        _enc: &[u8],
        ciphertext: &'a mut [u8],
        _info: &[u8],
    ) -> Result<&'a [u8], CryptError> {
        if kani::any() {
            Err(CryptError::Other)
        } else {
            let n = ciphertext.len() - TagSize::USIZE;
            Ok(&ciphertext[..n])
        }
    }

    pub(crate) fn a_key() -> &'static IpaPrivateKey {
        use crate::hpke::Deserializable;
        Box::leak(Box::new(IpaPrivateKey::from_bytes(&[7u8; 32]).unwrap()))
    }

    harness! {
        #[kani::unwind(36)]
        #[kani::stub(crate::hpke::open_in_place, crate::verif_kani::c10_report::c10::open_in_place_stub)]
        fn x10_decrypt_impression_total_and_key_choice() {
            // any accepted impression record (any metadata tail incl. none), registry with ONE key
            // registered under the record's key identifier or no key at all, AEAD succeeding or failing:
            // decrypt returns Ok/Err and never panics; a record whose key is not registered never decrypts.
            let (buf, len, bytes) = symbolic_record();
            kani::assume(len >= 1 && buf[0] == 0);
            if let Ok(r) = Enc::from_bytes(bytes) {
                let have_key: bool = kani::any();
                let reg = OneKey(if have_key { Some(a_key()) } else { None });
                let out = r.decrypt(&reg);
                if !have_key {
                    assert!(out.is_err(), "no key registered for the record's key identifier: decryption must fail");
                }
                kani::cover!(out.is_ok());
                kani::cover!(out.is_err() && have_key);
                std::mem::forget(out);
                std::mem::forget(r);
            }
        }
    }

    // `decrypt` parses the metadata tail `&data[INFO_OFFSET..]` (ANY length >= 0 for an accepted
    // record) BEFORE the AEAD is opened, so these two parsers see attacker-controlled bytes.
    harness! {
        #[kani::unwind(4)]
        fn q10_impression_info_total() {
            use crate::report::hybrid_info::HybridImpressionInfo;
            let buf: [u8; 4] = kani::any();
            let len: usize = kani::any();
            kani::assume(len <= 4);
            match HybridImpressionInfo::from_bytes(&buf[..len]) {
                Ok(i) => {
                    assert!(len >= 1 && i.key_id == buf[0]);
                    kani::cover!(true);
                }
                Err(e) => {
                    assert!(len == 0);
                    std::mem::forget(e);
                }
            }
            kani::cover!(len == 0);
        }
    }

    harness! {
        #[kani::unwind(30)]
        fn x10_conversion_info_total() {
            use crate::report::hybrid_info::HybridConversionInfo;
            // domain (0..=2 bytes) + delimiter + key id + 3 x 8 bytes, or any truncation/garbage
            let buf: [u8; 28] = kani::any();
            let len: usize = kani::any();
            kani::assume(len <= 28);
            match HybridConversionInfo::from_bytes(&buf[..len]) {
                Ok(i) => {
                    // accepted only if well-formed: a delimiter exists and exactly 25 bytes follow it
                    let d = i.conversion_site_domain.len();
                    assert!(d + 1 + 25 == len, "accepted metadata has the exact layout");
                    assert!(buf[d] == 0);
                    assert!(i.key_id == buf[d + 1]);
                    std::mem::forget(i);
                    kani::cover!(true);
                }
                Err(e) => {
                    std::mem::forget(e);
                    kani::cover!(true);
                }
            }
            kani::cover!(len == 0);
        }
    }
}

pub(crate) mod c10_keys_and_info {
    use super::*;
    use crate::hpke::{Deserializable, KeyRegistry, PrivateKeyOnly};
    use crate::report::hybrid::HELPER_ORIGIN;
    use crate::report::hybrid_info::{HybridConversionInfo, HybridImpressionInfo};

    harness! {
        #[kani::unwind(4)]
        fn q10_key_lookup_total() {
            // a record names its key by an attacker-controlled byte: lookup is total, Some iff registered
            let k = |b: u8| PrivateKeyOnly(match IpaPrivateKey::from_bytes(&[b; 32]) {
                Ok(k) => k,
                Err(e) => {
                    std::mem::forget(e);
                    kani::assume(false);
                    unreachable!()
                }
            });
            let reg = KeyRegistry::<PrivateKeyOnly>::from_keys([k(1), k(2)]);
            let id: u8 = kani::any();
            assert!(reg.private_key(id).is_some() == (id < 2), "unknown key ids are reported as missing, never a panic");
            let none = KeyRegistry::<PrivateKeyOnly>::empty();
            assert!(none.private_key(id).is_none());
            kani::cover!(id == 2);
            std::mem::forget(reg);
        }
    }

    /// prefix of every HPKE info string: DOMAIN ("private-attribution") then the helper origin
    fn prefix_len() -> usize {
        "private-attribution".len() + HELPER_ORIGIN.len()
    }

    harness! {
        #[kani::unwind(4)]
        fn q10_conversion_info_binds_every_field() {
            // the string fed to HPKE as `info` must contain every metadata field, otherwise tampering with
            // that field is not detected: layout = prefix | site | key_id | timestamp | epsilon | sensitivity (big endian)
            let key_id: u8 = kani::any();
            let ts: u64 = kani::any();
            let eps: f64 = kani::any();
            let sens: f64 = kani::any();
            let info = match HybridConversionInfo::new(key_id, "a.b", ts, eps, sens) {
                Ok(i) => i,
                Err(e) => {
                    std::mem::forget(e);
                    kani::assume(false);
                    unreachable!()
                }
            };
            let enc = info.to_enc_bytes();
            let p = prefix_len();
            assert!(enc.len() == p + 3 + 1 + 24, "length of the HPKE info");
            assert!(enc[p] == b'a' && enc[p + 1] == b'.' && enc[p + 2] == b'b', "site domain is bound");
            assert!(enc[p + 3] == key_id, "key id is bound");
            let j: usize = kani::any();
            kani::assume(j < 8);
            assert!(enc[p + 4 + j] == ts.to_be_bytes()[j], "timestamp is bound");
            assert!(enc[p + 12 + j] == eps.to_bits().to_be_bytes()[j], "epsilon is bound");
            assert!(enc[p + 20 + j] == sens.to_bits().to_be_bytes()[j], "sensitivity is bound");
            kani::cover!(true);
            std::mem::forget(enc);
            std::mem::forget(info);
        }
    }

    harness! {
        #[kani::unwind(34)]
        fn q10_conversion_info_roundtrip() {
            // metadata survives its own wire form unchanged (mixed-case site, symbolic numeric fields)
            let key_id: u8 = kani::any();
            let ts: u64 = kani::any();
            let eps: f64 = kani::any();
            let sens: f64 = kani::any();
            kani::assume(!eps.is_nan() && !sens.is_nan());
            let info = match HybridConversionInfo::new(key_id, "aB.c", ts, eps, sens) {
                Ok(i) => i,
                Err(e) => {
                    std::mem::forget(e);
                    kani::assume(false);
                    unreachable!()
                }
            };
            let wire = info.to_bytes();
            assert!(wire.len() == 4 + 1 + 1 + 24);
            match HybridConversionInfo::from_bytes(&wire) {
                Ok(back) => {
                    assert!(back.key_id == key_id && back.timestamp == ts && back.epsilon == eps && back.sensitivity == sens);
                    let d = back.conversion_site_domain.as_bytes();
                    assert!(d.len() == 4 && d[0] == b'a' && d[1] == b'B' && d[2] == b'.' && d[3] == b'c', "the site domain is returned byte for byte");
                    std::mem::forget(back);
                }
                Err(e) => {
                    std::mem::forget(e);
                    assert!(false, "a well-formed metadata block must parse");
                }
            }
            kani::cover!(true);
            std::mem::forget(wire);
            std::mem::forget(info);
        }
    }

    harness! {
        #[kani::unwind(4)]
        fn q10_impression_info_binds_key_id() {
            let key_id: u8 = kani::any();
            let enc = HybridImpressionInfo::new(key_id).to_enc_bytes();
            let p = prefix_len();
            assert!(enc.len() == p + 1 && enc[p] == key_id, "key id is bound into the HPKE info");
            let j: usize = kani::any();
            kani::assume(j < "private-attribution".len());
            assert!(enc[j] == "private-attribution".as_bytes()[j], "domain separation prefix");
            kani::cover!(true);
            std::mem::forget(enc);
        }
    }
}

pub(crate) mod c12_dummies {
    use super::*;
    use crate::helpers::Direction;
    use crate::report::hybrid::IndistinguishableHybridReport;
    use crate::secret_sharing::replicated::ReplicatedSecretSharing;
    use crate::secret_sharing::SharedValue;

    harness! {
        #[kani::unwind(4)]
        fn x12_dummy_records_contribute_nothing() {
            // a dummy record built for padding: a consistent sharing of the random match key between the
            // two generating helpers (the third helper's direction holds zero) and all-zero value and
            // breakdown key, so it cannot add to any bucket.
            let mk_raw: [u8; 8] = kani::any();
            let mk: BA64 = unsafe { std::mem::transmute(mk_raw) };
            let left: bool = kani::any();
            let dir = if left { Direction::Left } else { Direction::Right };
            let share = Replicated::<BA64>::new_excluding_direction(mk, dir);
            let r = IndistinguishableHybridReport::<BA8, BA3>::from(share);
            let (kept, zeroed) = if left { (r.match_key.right(), r.match_key.left()) } else { (r.match_key.left(), r.match_key.right()) };
            let i: usize = kani::any();
            kani::assume(i < 8);
            assert!(unsafe { std::mem::transmute::<BA64, [u8; 8]>(kept) }[i] == mk_raw[i], "the generating pair holds the match key");
            assert!(unsafe { std::mem::transmute::<BA64, [u8; 8]>(zeroed) }[i] == 0, "the excluded side holds zero");
            let v: [u8; 2] = unsafe { std::mem::transmute((r.value.left(), r.value.right())) };
            let b: [u8; 2] = unsafe { std::mem::transmute((r.breakdown_key.left(), r.breakdown_key.right())) };
            assert!(v[0] == 0 && v[1] == 0 && b[0] == 0 && b[1] == 0, "value and breakdown key of a dummy are zero");
            let z = IndistinguishableHybridReport::<BA8, BA3>::ZERO;
            assert!(z == IndistinguishableHybridReport::<BA8, BA3>::from(Replicated::<BA64>::ZERO));
            kani::cover!(true);
        }
    }
}

pub(crate) mod c11 {
    use super::*;

    harness! {
        #[kani::unwind(18)]
        fn q11_tag_is_the_ciphertext_prefix() {
            // both report kinds: the duplicate-detection tag is bytes [ENCAP, ENCAP+16) of the record
            let (buf, _len, bytes) = symbolic_record();
            if let Ok(r) = Enc::from_bytes(bytes) {
                let tag = UniqueTag::from_unique_bytes(&r);
                let i: usize = kani::any();
                kani::assume(i < 16);
                assert!(tag.unique_bytes()[i] == buf[1 + EncapsulationSize::USIZE + i]);
                assert!(r.unique_bytes()[i] == buf[1 + EncapsulationSize::USIZE + i]);
                std::mem::forget(r);
                kani::cover!(true);
            }
        }
    }

    harness! {
        #[kani::unwind(18)]
        fn q11_tag_serde_identity() {
            // the tag survives the resharding hop: serialize is the identity on 16 bytes
            let b: [u8; 16] = kani::any();
            let t = UniqueTag::deserialize(ga!(b)).unwrap();
            let mut out = [0u8; 16];
            t.serialize(ga_mut!(out));
            let i: usize = kani::any();
            kani::assume(i < 16);
            assert!(out[i] == b[i] && t.unique_bytes()[i] == b[i]);
            kani::cover!(true);
        }
    }

    harness! {
        #[kani::unwind(18)]
        fn q11_shard_picker_in_range() {
            // routing never panics and stays in range for every tag and every shard count >= 1.
            // (shard_picker takes only the tag and the count, so equal tags - established by the
            // two harnesses above - are routed identically; two symbolic dividers are not compared
            // because uniqueness of 128-bit division does not finish under any back end here.)
            let b: [u8; 16] = kani::any();
            let n: u32 = kani::any();
            kani::assume(n >= 1);
            let t = UniqueTag::deserialize(ga!(b)).unwrap();
            let st = u32::from(t.shard_picker(ShardIndex::from(n)));
            assert!(st < n, "shard index in range");
            kani::cover!(st == n - 1 && n > 1);
            kani::cover!(true);
        }
    }

    harness! {
        #[kani::unwind(20)]
        fn x11_validator_two_tags() {
            // experiment: the HashSet-based validator on two symbolic tags
            let a: [u8; 16] = kani::any();
            let b: [u8; 16] = kani::any();
            let ta = UniqueTag::deserialize(ga!(a)).unwrap();
            let tb = UniqueTag::deserialize(ga!(b)).unwrap();
            let mut v = UniqueTagValidator::new(2);
            let r1 = v.check_duplicate(&ta);
            assert!(r1.is_ok());
            let r2 = v.check_duplicate(&tb);
            assert!(r2.is_err() == (u128::from_le_bytes(a) == u128::from_le_bytes(b)));
            std::mem::forget(r1);
            std::mem::forget(r2);
            std::mem::forget(v);
            kani::cover!(true);
        }
    }
}
