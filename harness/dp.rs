// harness file dp (included under cfg(kani) from /repo)
