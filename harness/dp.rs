// C12 — hook H4: included as `crate::protocol::dp::verif_kani` (child of the module that owns the
// private `ShiftedTruncatedDiscreteLaplace`).
//
// Decided here: (a) the sample -> share mapping `(sample - shift) mod 2^width` for output widths
// 8/16/32 and both directions, for EVERY sample of the documented support 0..=2*shift and every
// shift <= 2^20, with the sampler itself replaced by its contract (an arbitrary value of the
// support); (b) the parameter validators on symbolic f64/u32 (IEEE comparisons only).
// NOT decided: the distribution law, find_smallest_n (libm powf, unbounded search).
use super::*;
use crate::ff::boolean_array::{BA8, BA16, BA32};
use crate::ff::U128Conversions;
use crate::helpers::Direction;
use crate::protocol::ipa_prf::oprf_padding::insecure::{Error as DpError, OPRFPaddingDp};
use crate::secret_sharing::replicated::ReplicatedSecretSharing;
use crate::verif_kani::common::*;

static mut SHIFT: u32 = 0;
static mut SAMPLE: u32 = 0;

fn padding_dp_new_stub(_e: f64, _d: f64, _s: u32) -> Result<OPRFPaddingDp, DpError> {
    // the distribution object is never consulted: `sample` and `get_shift` are stubbed
    Ok(unsafe { std::mem::zeroed::<OPRFPaddingDp>() })
}
fn get_shift_stub(_this: &OPRFPaddingDp) -> u32 {
    unsafe { SHIFT }
}
fn sample_stub<R: rand_core::RngCore + rand_core::CryptoRng>(this: &ShiftedTruncatedDiscreteLaplace, _rng: &mut R) -> u32 {
    // contract of the truncated sampler: some value of the support 0..=2*shift
    let v: u32 = kani::any();
    kani::assume(v <= 2 * this.shift);
    unsafe { SAMPLE = v };
    v
}

struct NoRng;
impl rand_core::RngCore for NoRng {
    fn next_u32(&mut self) -> u32 {
        unreachable!()
    }
    fn next_u64(&mut self) -> u64 {
        unreachable!()
    }
    fn fill_bytes(&mut self, _dest: &mut [u8]) {
        unreachable!()
    }
    fn try_fill_bytes(&mut self, _dest: &mut [u8]) -> Result<(), rand_core::Error> {
        unreachable!()
    }
}
impl rand_core::CryptoRng for NoRng {}

macro_rules! noise_share {
    ($name:ident, $ov:ty, $bytes:expr, $bits:expr, $unw:literal) => {
        harness! {
            #[kani::unwind($unw)]
            #[kani::stub(crate::protocol::ipa_prf::oprf_padding::insecure::OPRFPaddingDp::new, crate::protocol::dp::verif_kani::padding_dp_new_stub)]
            #[kani::stub(crate::protocol::ipa_prf::oprf_padding::insecure::OPRFPaddingDp::get_shift, crate::protocol::dp::verif_kani::get_shift_stub)]
            #[kani::stub(crate::protocol::dp::ShiftedTruncatedDiscreteLaplace::sample, crate::protocol::dp::verif_kani::sample_stub)]
            fn $name() {
                let shift: u32 = kani::any();
                kani::assume(shift <= (1 << 20));
                kani::assume(u64::from(shift) * 2 < (1u64 << $bits)); // the support fits the output width
                unsafe { SHIFT = shift };
                let d = match ShiftedTruncatedDiscreteLaplace::new(&NoiseParams::default(), $bits) {
                    Ok(d) => d,
                    Err(e) => {
                        std::mem::forget(e);
                        kani::assume(false);
                        unreachable!()
                    }
                };
                let left: bool = kani::any();
                let dir = if left { Direction::Left } else { Direction::Right };
                let share = d.sample_shares::<_, $ov>(&mut NoRng, dir);
                let sample = unsafe { SAMPLE };
                // reference: (sample - shift) mod 2^width, as a two's complement residue
                let expect: u64 = ((i64::from(sample) - i64::from(shift)) as u64) & ((1u64 << $bits) - 1);
                let (noise, zero) = if left { (share.right(), share.left()) } else { (share.left(), share.right()) };
                let nb = unsafe { std::mem::transmute::<$ov, [u8; $bytes]>(noise) };
                let zb = unsafe { std::mem::transmute::<$ov, [u8; $bytes]>(zero) };
                let i: usize = kani::any();
                kani::assume(i < $bytes);
                assert!(nb[i] == ((expect >> (8 * i)) & 0xFF) as u8, "noise share == (sample - shift) mod 2^width");
                assert!(zb[i] == 0, "the other share is zero");
                kani::cover!(sample + 1 == shift); // the value -1
                kani::cover!(sample == 2 * shift && shift > 0);
                std::mem::forget(d);
            }
        }
    };
}

noise_share!(q12_noise_share_8, BA8, 1, 8, 12);
noise_share!(q12_noise_share_16, BA16, 2, 16, 20);
noise_share!(q12_noise_share_32, BA32, 4, 32, 36);

harness! {
    fn q12_noise_params_ranges() {
        // NoiseParams::new accepts exactly: epsilon > 0, delta > 0, success_prob in [0,1], and the
        // five positive scale/sensitivity parameters (NaN inputs are outside the claim).
        let f: [f64; 8] = kani::any();
        let cap: u32 = kani::any();
        let mut k = 0;
        while k < 8 {
            kani::assume(!f[k].is_nan());
            k += 1;
        }
        let ok = f[0] > 0.0 && f[1] > 0.0 && (0.0..=1.0).contains(&f[2]) && f[3] > 0.0 && f[4] > 0.0 && f[5] > 0.0 && f[6] > 0.0 && f[7] > 0.0;
        match NoiseParams::new(f[0], f[1], cap, f[2], f[3], f[4], f[5], f[6], f[7]) {
            Ok(p) => {
                assert!(ok, "accepted parameters are in the documented ranges");
                assert!(p.epsilon == f[0] && p.delta == f[1] && p.per_user_credit_cap == cap && p.success_prob == f[2]);
                kani::cover!(true);
            }
            Err(e) => {
                assert!(!ok, "documented parameters are accepted");
                std::mem::forget(e);
                kani::cover!(true);
            }
        }
    }
}

fn find_smallest_n_stub(big_delta: u32, _epsilon: f64, _small_delta: f64) -> u32 {
    // contract: some n >= sensitivity (the search itself is outside the claim)
    let n: u32 = kani::any();
    kani::assume(n >= big_delta && n <= 1_000_000);
    n
}

harness! {
    #[kani::stub(crate::protocol::ipa_prf::oprf_padding::insecure::find_smallest_n, crate::protocol::dp::verif_kani::find_smallest_n_stub)]
    fn q12_padding_dp_ranges() {
        // OPRFPaddingDp::new: Err(BadEpsilon) below MIN_POSITIVE, Err(BadDelta) outside
        // [MIN_POSITIVE, 1 - MIN_POSITIVE], Err(BadSensitivity) above 10^6, otherwise constructed.
        let eps: f64 = kani::any();
        let delta: f64 = kani::any();
        let sens: u32 = kani::any();
        kani::assume(!eps.is_nan() && !delta.is_nan());
        let r = OPRFPaddingDp::new(eps, delta, sens);
        let eps_ok = eps >= f64::MIN_POSITIVE;
        let delta_ok = delta >= f64::MIN_POSITIVE && delta <= 1.0 - f64::MIN_POSITIVE;
        let sens_ok = sens <= 1_000_000;
        match &r {
            Err(DpError::BadEpsilon(_)) => assert!(!eps_ok),
            Err(DpError::BadDelta(_)) => assert!(eps_ok && !delta_ok),
            Err(DpError::BadSensitivity(_)) => assert!(eps_ok && delta_ok && !sens_ok),
            Err(_) => assert!(eps_ok && delta_ok && sens_ok), // rejected further down (scale 1/eps out of range)
            Ok(d) => {
                assert!(eps_ok && delta_ok && sens_ok, "only documented parameters are accepted");
                assert!(d.get_shift() >= sens, "truncation point is at least the sensitivity");
            }
        }
        kani::cover!(r.is_ok());
        kani::cover!(matches!(r, Err(DpError::BadDelta(_))));
        std::mem::forget(r);
    }
}


harness! {
    fn q12_truncated_distribution_parameters() {
        // TruncatedDoubleGeometric::new: scale below MIN_POSITIVE -> BadS, truncation point above 10^6 ->
        // BadShiftValue (checked in this order); an accepted distribution remembers 2*n exactly.
        use crate::protocol::ipa_prf::oprf_padding::distributions::TruncatedDoubleGeometric;
        let s: f64 = kani::any();
        let n: u32 = kani::any();
        kani::assume(!s.is_nan());
        let r = TruncatedDoubleGeometric::new(s, n);
        match &r {
            Err(DpError::BadS(_)) => assert!(s < f64::MIN_POSITIVE),
            Err(DpError::BadShiftValue(_)) => assert!(s >= f64::MIN_POSITIVE && n > 1_000_000),
            Err(_) => assert!(s >= f64::MIN_POSITIVE && n <= 1_000_000),
            Ok(d) => {
                assert!(s >= f64::MIN_POSITIVE && n <= 1_000_000, "only documented parameters are accepted");
                assert!(d.shift_doubled == 2 * n, "the support is exactly 0..=2n");
            }
        }
        kani::cover!(r.is_ok());
        kani::cover!(matches!(r, Err(DpError::BadShiftValue(_))));
        std::mem::forget(r);
    }
}

// The SEARCH for the truncation point (the tail-mass formula itself is libm and stays outside):
// with `right_hand_side` replaced by an ARBITRARY function of n (symbolic table for the first four
// candidates, 0 afterwards so that the search ends), the constructor settles on the SMALLEST
// n >= sensitivity whose tail mass is <= delta, and evaluates the criterion with the configured
// sensitivity and epsilon.
static mut RHS_TABLE: [f64; 4] = [0.0; 4];
static mut RHS_BASE: u32 = 0;
static mut RHS_EPS: f64 = 0.0;
fn right_hand_side_stub(n: u32, big_delta: u32, epsilon: f64) -> f64 {
    assert!(big_delta == unsafe { RHS_BASE }, "criterion evaluated for the configured sensitivity");
    assert!(epsilon == unsafe { RHS_EPS }, "criterion evaluated for the configured epsilon");
    assert!(n >= big_delta, "candidates start at the sensitivity");
    let k = n - big_delta;
    if k < 4 { unsafe { RHS_TABLE[k as usize] } } else { 0.0 }
}

harness! {
    #[kani::unwind(7)]
    #[kani::stub(crate::protocol::ipa_prf::oprf_padding::insecure::right_hand_side, crate::protocol::dp::verif_kani::right_hand_side_stub)]
    fn q12_truncation_point_is_the_smallest_admissible() {
        let eps: f64 = kani::any();
        let delta: f64 = kani::any();
        let sens: u32 = kani::any();
        let table: [f64; 4] = kani::any();
        kani::assume(!eps.is_nan() && !delta.is_nan());
        kani::assume(!table[0].is_nan() && !table[1].is_nan() && !table[2].is_nan() && !table[3].is_nan());
        unsafe {
            RHS_TABLE = table;
            RHS_BASE = sens;
            RHS_EPS = eps;
        }
        let r = OPRFPaddingDp::new(eps, delta, sens);
        if let Ok(d) = &r {
            let k: u32 = if delta >= table[0] { 0 } else if delta >= table[1] { 1 } else if delta >= table[2] { 2 } else if delta >= table[3] { 3 } else { 4 };
            assert!(d.get_shift() == sens + k, "the smallest n >= sensitivity with tail mass <= delta");
            kani::cover!(k == 0);
            kani::cover!(k == 2);
            kani::cover!(k == 4);
        }
        kani::cover!(r.is_ok());
        std::mem::forget(r);
    }
}

// native replay slot (cargo kani playback): the driver points IPA_VERIF_REPLAY_DIR at a directory
// holding one file per hook; the generated test calls the harness by its path relative to this module.
#[cfg(test)]
mod replay_here {
    use super::*;
    include!(concat!(env!("IPA_VERIF_REPLAY_DIR"), "/dp.rs"));
}
