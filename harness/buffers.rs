// harness file buffers (included under cfg(kani) from /repo)
